"""spec_accepts(ptype, cfg, value, route) -> ACCEPT | REJECT | EITHER

Independent acceptance predicate for the built-in Parameter types, written from the types'
documented constraints (value type, hard bounds and inclusivity, length, regex, item type, allowed
objects, allow_None), *not* from the validators.  Cases the documentation does not decide are EITHER
and are counted in the evidence.
"""
import datetime as dt
import decimal
import fractions
import inspect
import math
import re

ACCEPT, REJECT, EITHER = 'ACCEPT', 'REJECT', 'EITHER'

NAMED_COLORS_SAMPLE = {'red', 'blue', 'white', 'black', 'rebeccapurple'}


def is_bool(v):
    return isinstance(v, bool)


def is_real_number(v):
    return isinstance(v, (int, float, fractions.Fraction, decimal.Decimal)) and not is_bool(v)


def isnan(v):
    try:
        return v != v
    except Exception:
        return False


def to_dt(v):
    if isinstance(v, dt.datetime):
        return v
    if isinstance(v, dt.date):
        return dt.datetime(v.year, v.month, v.day)
    return v


def within(v, bounds, inclusive):
    """True/False: is the (comparable) v inside the hard bounds?  NaN is never inside."""
    if bounds is None:
        return True
    lo, hi = bounds
    ilo, ihi = inclusive
    if lo is None and hi is None:
        return True
    if isnan(v):
        return False
    if lo is not None:
        if not (v >= lo if ilo else v > lo):
            return False
    if hi is not None:
        if not (v <= hi if ihi else v < hi):
            return False
    return True


def _and(*xs):
    if REJECT in xs:
        return REJECT
    if EITHER in xs:
        return EITHER
    return ACCEPT


def _b(x):
    return ACCEPT if x else REJECT


def number_kind(v, integer=False):
    """ACCEPT if v is of the numeric type, EITHER for bool and callables (dynamic values), else REJECT"""
    if is_bool(v):
        return EITHER
    if integer:
        return _b(isinstance(v, int))
    if is_real_number(v):
        return ACCEPT
    return REJECT


def spec_accepts(ptype, cfg, v, route='inst'):
    allow_None = bool(cfg.get('allow_None'))
    if v is None:
        if route == 'default':
            # a default of None is always permitted and implies allow_None
            if ptype in ('Tuple', 'NumericTuple') and cfg.get('length') is None:
                return EITHER
            return ACCEPT
        if ptype == 'Parameter':
            return EITHER if not allow_None else ACCEPT
        if ptype in ('Selector', 'ObjectSelector'):
            if not cfg.get('check_on_set', True):
                return ACCEPT
            return _b(allow_None or any(o is None for o in cfg['_objects']))
        return _b(allow_None)

    if ptype == 'Parameter':
        return ACCEPT
    if ptype == 'Filename':
        import os
        import pathlib
        if not isinstance(v, (str, pathlib.Path)):
            return REJECT
        if os.path.isabs(str(v)):
            return _b(os.path.isfile(str(v)))
        return _b(any(os.path.isfile(os.path.join(sp, str(v))) for sp in cfg['_search_paths']))
    if ptype == 'String':
        if not isinstance(v, str):
            return REJECT
        return _regex(cfg.get('regex'), v)
    if ptype == 'Bytes':
        if not isinstance(v, bytes):
            return REJECT
        rx = cfg.get('regex')
        return _regex(rx.encode() if rx else None, v)
    if ptype == 'Color':
        if not isinstance(v, str):
            return REJECT
        if re.fullmatch(r'#?([0-9a-fA-F]{3}|[0-9a-fA-F]{6})', v):
            return ACCEPT
        if v.lower() in NAMED_COLORS_SAMPLE:
            return _b(cfg.get('allow_named', True))
        return REJECT      # the pool holds no other named colour
    if ptype in ('Boolean', 'Event'):
        return _b(is_bool(v))
    if ptype in ('Number', 'Integer', 'Magnitude'):
        if callable(v):
            return EITHER          # dynamic values: not a constraint question
        k = number_kind(v, integer=(ptype == 'Integer'))
        if k == REJECT:
            return REJECT
        bounds = cfg.get('bounds')
        if ptype == 'Magnitude' and 'bounds' not in cfg:
            bounds = (0.0, 1.0)
        try:
            inb = within(v, bounds, cfg.get('inclusive', (True, True)))
        except TypeError:
            return EITHER
        return _and(k, _b(inb))
    if ptype in ('Date', 'CalendarDate'):
        if callable(v):
            return EITHER          # Date types derive from the Dynamic Number: callables are dynamic values
        if ptype == 'Date':
            ok = isinstance(v, dt.date)
        else:
            ok = isinstance(v, dt.date) and not isinstance(v, dt.datetime)
        if not ok:
            return REJECT
        b = cfg.get('bounds')
        if b is not None:
            b = tuple(to_dt(x) for x in b)
        return _b(within(to_dt(v), b, cfg.get('inclusive', (True, True))))
    if ptype in ('Tuple', 'NumericTuple', 'XYCoordinates'):
        if not isinstance(v, tuple):
            return REJECT
        length = 2 if ptype == 'XYCoordinates' else cfg.get('length')
        if length is not None and len(v) != length:
            return REJECT
        if ptype == 'Tuple':
            return ACCEPT
        return _and(*[_elem_number(x) for x in v]) if v else ACCEPT
    if ptype == 'Range':
        if not isinstance(v, tuple) or len(v) != 2:
            return REJECT
        ks = [_elem_number(x) for x in v]
        if REJECT in ks:
            return REJECT
        try:
            inb = [_b(within(x, cfg.get('bounds'), cfg.get('inclusive', (True, True)))) for x in v]
        except TypeError:
            return EITHER
        order = ACCEPT
        try:
            if not (v[0] <= v[1]):
                order = EITHER     # reversed / NaN-containing ranges: ordering is not a declared constraint
        except TypeError:
            order = EITHER
        return _and(order, *(ks + inb))
    if ptype in ('DateRange', 'CalendarDateRange'):
        if not isinstance(v, tuple):
            return REJECT
        if len(v) != 2:
            return REJECT
        if not all(isinstance(x, dt.date) for x in v):
            return REJECT
        extra = ACCEPT
        if ptype == 'CalendarDateRange' and any(isinstance(x, dt.datetime) for x in v):
            return REJECT          # calendar dates only, as for CalendarDate (a datetime would lose its time of day when serialized)
        kinds = {isinstance(x, dt.datetime) for x in v}
        if len(kinds) == 2:
            extra = EITHER      # mixing date and datetime
        a, b_ = to_dt(v[0]), to_dt(v[1])
        if not a <= b_:
            extra = _and(extra, EITHER)      # end before start: not among the declared constraints
        b = cfg.get('bounds')
        if b is not None:
            b = tuple(to_dt(x) for x in b)
        inb = [_b(within(to_dt(x), b, cfg.get('inclusive', (True, True)))) for x in v]
        return _and(extra, *inb)
    if ptype in ('List', 'HookList'):
        if not isinstance(v, list):
            return REJECT
        b = cfg.get('bounds', (0, None))
        if b is not None:
            lo, hi = b
            if lo is not None and len(v) < lo:
                return REJECT
            if hi is not None and len(v) > hi:
                return REJECT
        if ptype == 'HookList':
            return _b(all(callable(x) for x in v))
        it = cfg.get('_item_type')
        if it is None:
            return ACCEPT
        if cfg.get('is_instance', True):
            res = []
            for x in v:
                if is_bool(x) and not _mentions_bool(it) and isinstance(x, it):
                    res.append(ACCEPT)      # bool is an int subclass: isinstance semantics are the documented ones
                else:
                    res.append(_b(isinstance(x, it)))
            return _and(*res) if res else ACCEPT
        return _b(all(inspect.isclass(x) and issubclass(x, it) for x in v))
    if ptype == 'Dict':
        return _b(isinstance(v, dict))
    if ptype in ('Callable', 'Action'):
        return _b(callable(v))
    if ptype in ('Selector', 'ObjectSelector'):
        if not cfg.get('check_on_set', True):
            return ACCEPT
        return _b(_member(v, cfg['_objects']))
    if ptype == 'ListSelector':
        if not isinstance(v, list):
            return REJECT
        if not cfg.get('check_on_set', True):
            return ACCEPT
        return _b(all(_member(x, cfg['_objects']) for x in v))
    if ptype == 'ClassSelector':
        c = cfg['_class']
        if cfg.get('is_instance', True):
            return _b(isinstance(v, c))
        return _b(inspect.isclass(v) and issubclass(v, c))
    raise KeyError(ptype)


def _mentions_bool(it):
    return it is bool or (isinstance(it, tuple) and bool in it)


def _elem_number(x):
    if is_bool(x):
        return EITHER
    return _b(is_real_number(x))


def _member(v, objects):
    for o in objects:
        if o is v:
            return True
        try:
            if o == v:
                return True
        except Exception:
            pass
    return False


def _regex(rx, v):
    """the value must match the regular expression from its beginning (re.match semantics, as for every `regex=` in param);
    whether a match must also extend to the end of the value is left open"""
    if rx is None:
        return ACCEPT
    if re.fullmatch(rx, v):
        return ACCEPT
    if re.match(rx, v) is None:
        return REJECT
    return EITHER
