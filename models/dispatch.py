"""Reference dispatcher for C03/C04 (DESIGN.md Appendix A), written from the property
statements, not from param's `_call_watcher`/`_batch_call_watchers`.

The model is run *after* the implementation executed one operation and consumes the
trace recorded by the callbacks themselves (trace inclusion in a specification that is
non-deterministic exactly where the statement leaves a choice):

  * changes-only filtering is three-valued (MUST deliver / MUST skip / EITHER);
  * the order of equal-precedence watchers at a batch flush is free;
  * `old` of a coalesced (batched) event is not compared;
  * the event type of a `trigger` issued inside an open batch is not compared.
"""
import datetime
import numbers

MUST, MUST_NOT, EITHER = 'MUST', 'MUST_NOT', 'EITHER'


class Mismatch(Exception):
    def __init__(self, clause, detail, **key):
        super().__init__(detail)
        self.clause, self.detail, self.key = clause, detail, key


def _basic_equal(a, b, depth=0):
    """a == b holds; is it one of the kinds for which the statement says 'always skipped'?"""
    if depth > 6:
        return False
    if a is None and b is None:
        return True
    if isinstance(a, numbers.Number) and isinstance(b, numbers.Number):
        return a == b
    for t in (str, bytes):
        if isinstance(a, t) and isinstance(b, t):
            return a == b
    if isinstance(a, datetime.date) and isinstance(b, datetime.date):
        return a == b
    if type(a) is type(b) and isinstance(a, (list, tuple)):
        return len(a) == len(b) and all(_basic_equal(x, y, depth + 1) for x, y in zip(a, b))
    if type(a) is type(b) and isinstance(a, dict):
        return a.keys() == b.keys() and all(_basic_equal(a[k], b[k], depth + 1) for k in a)
    if type(a) is type(b) and type(a) is set:      # list/tuple/dict/set are the container kinds meant; others are EITHER
        return a == b and all(_basic_equal(x, x, depth + 1) for x in a)
    return False


def changed3(old, new):
    try:
        ne = bool(new != old)
    except Exception:
        return EITHER
    if ne:
        return MUST
    return MUST_NOT if _basic_equal(old, new) else EITHER


class DispatchModel:
    """vals: name -> python object; event_names: names of Event parameters.
    Watchers: dicts with id, names(tuple), what, onlychanged, queued, precedence, mode, action, target('inst'|'cls'), active."""

    def __init__(self, vals, slots, event_names=(), tok=None):
        self.vals = dict(vals)
        self.own = set()                    # names the instance has set itself (the others follow the class default)
        self.subvals = None                 # values of a subclass that has its own copies of the Parameters (class slice with subclass)
        self.slots = dict(slots)            # (pname, slot) -> object
        self.event_names = set(event_names)
        self.W = []
        self.ctx = []                       # frames: dict(kind=..., mark=..., restore=...)
        self.pending = []                   # dict(w, name, what, old, new, trg, q, inbatch_trigger)
        self.running_queued = 0
        self.tok = tok or (lambda o: o)
        self.trace = []
        self.pos = 0
        self.hits = {}

    # ---- trace cursor
    def _hit(self, k):
        self.hits[k] = self.hits.get(k, 0) + 1

    def _peek(self):
        return self.trace[self.pos] if self.pos < len(self.trace) else None

    def begin(self, trace):
        self.trace, self.pos = trace, 0

    def end(self):
        if self.pos < len(self.trace):
            e = self.trace[self.pos]
            raise Mismatch('unexpected-call', 'watcher call not licensed by the specification: %r (trace position %d of %d)' % (
                e, self.pos, len(self.trace)), w=self._wkey(e), kind=e[0])

    def _wkey(self, e):
        wid = e[1] if e[0] == 'ret' else e[1]['w']
        w = self._w(wid)
        return self.wdesc(w) if w else wid

    def _w(self, wid):
        for w in self.W:
            if w['id'] == wid:
                return w
        return None

    @staticmethod
    def wdesc(w):
        return '%s%s%s%s' % ('+'.join(w['names']), ':oc' if w['onlychanged'] else ':all', ':q' if w['queued'] else '',
                             ':' + w['what'] if w['what'] != 'value' else '')

    # ---- spec
    def deferring(self):
        return any(f['kind'] in ('batch', 'discard', 'updating') for f in self.ctx) or self.running_queued > 0

    def watchers_for(self, name, what, target):
        ws = [w for w in self.W if w['active'] and name in w['names'] and w['what'] == what and w['target'] == target]
        if what == 'value':
            ws = sorted(ws, key=lambda w: w['precedence'])     # stable: registration order within a precedence
        return ws

    def assign(self, name, new, trg=False, target='inst', apply_action=True):
        old = self.vals[name]
        self.vals[name] = new
        self._dispatch(name, 'value', old, new, trg, target)

    def assign_slot(self, pname, slot, new, target='inst'):
        old = self.slots[(pname, slot)]
        self.slots[(pname, slot)] = new
        self._dispatch(pname, slot, old, new, False, target)

    def _dispatch(self, name, what, old, new, trg, target):
        ws = self.watchers_for(name, what, target)
        ordered = what == 'value'
        remaining = list(ws)
        while remaining:
            if ordered:
                w = remaining.pop(0)
            else:
                # slot watchers: each exactly once, order not fixed by the statement -> follow the implementation
                nxt = self._peek()
                cand = [x for x in remaining if nxt is not None and nxt[0] == 'call' and nxt[1]['w'] == x['id']]
                w = cand[0] if cand and not self.deferring() else remaining[0]
                remaining.remove(w)
            q = MUST if (trg or not w['onlychanged']) else changed3(old, new)
            ev = dict(w=w, name=name, what=what, old=old, new=new, trg=trg, q=q,
                      inbatch_trigger=trg and any(f['kind'] in ('batch', 'discard') for f in self.ctx))
            if q == MUST_NOT:
                self._hit('filtered')
                continue
            if self.deferring():
                self.pending.append(ev)
                self._hit('deferred')
                continue
            if q == EITHER:
                nxt = self._peek()
                if not (nxt is not None and nxt[0] == 'call' and nxt[1]['w'] == w['id']):
                    self._hit('either-skipped')
                    continue
                self._hit('either-delivered')
            self.invoke(w, [ev], batched=False)
        if not self.deferring():
            self.flush()

    def typed(self, w, ev):
        return 'triggered' if ev['trg'] else ('changed' if w['onlychanged'] else 'set')

    def invoke(self, w, evs, batched, optional=()):
        """expect one call of w with exactly evs (+ any subset of optional) now."""
        e = self._peek()
        if e is None or e[0] != 'call' or e[1]['w'] != w['id']:
            raise Mismatch('missing-call', 'expected %s to be called now with %s; next recorded step is %r' % (
                self.wdesc(w), [(x['name'], self.tok(x['new'])) for x in evs], e),
                w=self.wdesc(w), batched=batched, trg=any(x['trg'] for x in evs))
        self.pos += 1
        rec = e[1]
        self._hit('call')
        self._check_events(w, evs, rec, batched, optional)
        if w['queued']:
            self.running_queued += 1
        try:
            act = w.get('action')
            if act and act[0] == 'unwatch':
                # the registration ends now; the dispatch in progress keeps the watchers it started with
                self._hit('unwatch-in-callback')
                for x in self.W:
                    if x['id'] == 'w%d' % act[1]:
                        x['active'] = False
            elif act:
                self._hit('cascade')
                self.assign(act[1], act[2])
        finally:
            if w['queued']:
                self.running_queued -= 1
        r = self._peek()
        if r is None or r[0] != 'ret' or r[1] != w['id']:
            raise Mismatch('depth-first', 'after %s and its cascade, expected its return; next recorded step is %r' % (
                self.wdesc(w), r), w=self.wdesc(w), batched=batched)
        self.pos += 1

    def _check_events(self, w, evs, rec, batched, optional):
        tok = self.tok
        got = rec['events']
        if w['mode'] == 'kwargs':
            exp = {x['name']: tok(x['new']) for x in evs}
            alt = {x['name']: tok(x.get('alt_new', x['new'])) for x in evs}
            opt = {x['name']: tok(x['new']) for x in optional}
            g = dict(got)
            for k, v in exp.items():
                if k not in g or (g[k] != v and not (batched and g[k] == alt[k])):
                    raise Mismatch('event-fields', 'watch_values callback %s got %r expected %r' % (self.wdesc(w), g, exp),
                                   w=self.wdesc(w), batched=batched, field='kwargs')
            for k, v in g.items():
                if k not in exp and opt.get(k, object()) != v:
                    raise Mismatch('batch-extra-event' if batched else 'event-fields',
                                   'watch_values callback %s got %r expected %r' % (self.wdesc(w), g, exp),
                                   w=self.wdesc(w), batched=batched, field='kwargs')
            return
        gn = [g['name'] for g in got]
        if len(set(gn)) != len(gn):
            raise Mismatch('event-once-per-parameter', '%s received several events for one parameter: %r' % (self.wdesc(w), got),
                           w=self.wdesc(w), batched=batched)
        byname = {g['name']: g for g in got}
        for x in evs:
            g = byname.get(x['name'])
            if g is None:
                raise Mismatch('missing-event', '%s: no event for %s in %r' % (self.wdesc(w), x['name'], got),
                               w=self.wdesc(w), batched=batched)
            self._check_one(w, x, g, rec, batched)
        optn = {x['name']: x for x in optional}
        for g in got:
            if g['name'] in [x['name'] for x in evs]:
                continue
            if g['name'] in optn:
                self._check_one(w, optn[g['name']], g, rec, batched)
                continue
            raise Mismatch('batch-extra-event' if batched else 'event-fields',
                           '%s received an event for %s, which had no qualifying event for it: %r' % (self.wdesc(w), g['name'], g),
                           w=self.wdesc(w), batched=batched, extra=g['name'])

    def _check_one(self, w, x, g, rec, batched):
        tok = self.tok
        def bad(field, exp, gotv):
            raise Mismatch('event-fields', '%s event %s: %s expected %r got %r' % (self.wdesc(w), x['name'], field, exp, gotv),
                           w=self.wdesc(w), batched=batched, field=field, trg=x['trg'])
        if g['what'] != x['what']:
            bad('what', x['what'], g['what'])
        if g['new'] != tok(x['new']) and not (batched and 'alt_new' in x and g['new'] == tok(x['alt_new'])):
            # batched: the value of this watcher's last qualifying event, or of the last event queued for the
            # parameter at all (they differ only when discard_events hid an assignment)
            bad('new', tok(x['new']), g['new'])
        if not batched and g['old'] != tok(x['old']):
            bad('old', tok(x['old']), g['old'])
        if not (batched and x.get('inbatch_trigger')):
            if g['type'] != self.typed(w, x):
                bad('type', self.typed(w, x), g['type'])
        # the object already shows the new value at entry (Event parameters: transient, not compared)
        if x['what'] == 'value' and x['name'] not in self.event_names and w['target'] == 'inst':
            seen = rec['seen'].get(x['name'])
            cur = tok(self.vals[x['name']])
            if seen != cur:
                bad('value-visible-at-entry', cur, seen)

    def flush(self):
        while self.pending:
            batch, self.pending = self.pending, []
            per = {}      # wid -> {'w', 'def': {name: ev}, 'opt': {name: ev}}
            order = []
            last_any = {}
            for ev in batch:
                last_any[(ev['name'], ev['what'])] = ev
                w = ev['w']
                if not w['active'] and False:
                    continue
                d = per.setdefault(w['id'], {'w': w, 'def': {}, 'opt': {}})
                if w['id'] not in order:
                    order.append(w['id'])
                (d['def'] if ev['q'] == MUST else d['opt'])[ev['name']] = ev
                if ev['q'] == MUST:
                    d['opt'].pop(ev['name'], None)
            remaining = list(order)
            while remaining:
                pmin = min(per[i]['w']['precedence'] for i in remaining)
                cands = [i for i in remaining if per[i]['w']['precedence'] == pmin]
                nxt = self._peek()
                pick = None
                if nxt is not None and nxt[0] == 'call':
                    if nxt[1]['w'] in cands:
                        pick = nxt[1]['w']
                    elif nxt[1]['w'] in remaining:
                        raise Mismatch('batch-precedence', 'watcher %s ran at the flush before a pending watcher of lower precedence' % (
                            self.wdesc(per[nxt[1]['w']]['w']),), w=self.wdesc(per[nxt[1]['w']]['w']))
                if pick is None:
                    # watchers that only hold EITHER events may legitimately be skipped
                    skippable = [i for i in cands if not per[i]['def']]
                    if skippable:
                        remaining.remove(skippable[0])
                        continue
                    pick = cands[0]
                remaining.remove(pick)
                d = per[pick]
                w = d['w']
                names = [n for n in w['names'] if n in d['def']]
                evs = []
                # each delivered event is the last qualifying one for (watcher, parameter): it carries the
                # final value (events dropped by discard_events do not count)
                evs = [dict(d['def'][n], alt_new=last_any[(n, w['what'])]['new']) for n in names]
                opts = [dict(ev) for ev in d['opt'].values()]
                # A watched parameter that had a qualifying event for *another* watcher in this batch may be
                # reported to this watcher too (literal reading of "one event per watched parameter that had a
                # qualifying event"); it must still carry that parameter's last queued value.
                for n in w['names']:
                    if n not in d['def'] and n not in d['opt'] and (n, w['what']) in last_any:
                        opts.append(dict(last_any[(n, w['what'])], w=w))
                        self._hit('other-watchers-event-allowed')
                self._hit('flush-call')
                self.invoke(w, evs, batched=True, optional=opts)

    # ---- operations of the token language
    def op_update(self, kv, trg=False, target='inst'):
        self.ctx.append({'kind': 'updating'})
        try:
            for k, v in kv:
                self.assign(k, v, trg=trg, target=target)
        finally:
            self.ctx.pop()
        if not self.deferring():
            self.flush()
        for k, v in kv:
            if k in self.event_names:
                self.vals[k] = False

    def op_trigger(self, names, target='inst'):
        kv = [(n, self.vals[n]) for n in names if n not in self.event_names]
        kv += [(n, True) for n in names if n in self.event_names]
        self.op_update(kv, trg=True, target=target)

    def op_set(self, name, v, target='inst'):
        self.assign(name, v, target=target)
        if name in self.event_names:
            self.vals[name] = False

    def open(self, kind, kv=None):
        if kind == 'updatectx':
            restore = [(k, self.vals[k]) for k, _ in kv]
            self.op_update(kv)
            self.ctx.append({'kind': 'updatectx', 'restore': restore})
        elif kind == 'discard':
            self.ctx.append({'kind': 'discard', 'mark': len(self.pending)})
        else:
            self.ctx.append({'kind': kind})

    def close(self):
        f = self.ctx.pop()
        if f['kind'] == 'discard':
            del self.pending[f['mark']:]
        elif f['kind'] == 'updatectx':
            self.op_update(f['restore'])
            return
        if not self.deferring():
            self.flush()

    def canon(self):
        tok = self.tok
        return [
            sorted((k, repr(tok(v))) for k, v in self.vals.items()) + (sorted(('sub.' + k, repr(tok(v))) for k, v in self.subvals.items()) if self.subvals else []),
            sorted((repr(k), repr(tok(v))) for k, v in self.slots.items()),
            [(w['id'], w['active']) for w in self.W] + sorted(self.own),
            [(f['kind'], f.get('mark'), [(k, repr(tok(v))) for k, v in f.get('restore', [])]) for f in self.ctx],
            [(e['w']['id'], e['name'], e['what'], repr(tok(e['new'])), e['trg'], e['q']) for e in self.pending],
        ]
