"""C11 — Parameter attributes inherit along the MRO; merged defaults are re-validated.

Bounded-exhaustive configuration enumeration: hierarchy shape x Parameter type per level x subset of explicitly specified attributes
per level, against an independent per-slot resolver over the declared hierarchy; class creation (and add_parameter) must fail exactly
when the merged default is rejected by the C01 acceptance predicate under the merged constraints."""
import itertools

from mc.engine import Harness, Result, V
from mc.world import reset_globals
from models.spec import spec_accepts, REJECT, ACCEPT

NUM_MENU = [('default', 5), ('default', 20), ('default', None), ('default', 2.5), ('bounds', (0, 10)), ('bounds', (0, 100)), ('inclusive_bounds', (False, False)),
            ('step', 2), ('doc', 'd'), ('constant', True), ('readonly', True), ('allow_None', True), ('instantiate', True), ('precedence', 1),
            ('per_instance', False), ('softbounds', (1, 2))]
STR_MENU = [('default', 'a'), ('default', 'zz'), ('default', None), ('regex', '^a'), ('doc', 'd'), ('allow_None', True), ('constant', True)]
GEN_MENU = [('default', 20), ('default', 'zz'), ('default', None), ('doc', 'g'), ('instantiate', True), ('constant', True), ('precedence', 2)]
MENUS = {'Number': NUM_MENU, 'Integer': NUM_MENU, 'String': STR_MENU, 'Parameter': GEN_MENU}
SLOTS = {'Number': ['default', 'bounds', 'inclusive_bounds', 'step', 'softbounds', 'doc', 'constant', 'readonly', 'allow_None', 'instantiate', 'precedence', 'per_instance'],
         'String': ['default', 'regex', 'doc', 'constant', 'readonly', 'allow_None', 'instantiate', 'precedence', 'per_instance'],
         'Parameter': ['default', 'doc', 'constant', 'readonly', 'allow_None', 'instantiate', 'precedence', 'per_instance']}
SLOTS['Integer'] = SLOTS['Number']
TYPE_DEFAULTS = {'Number': {'default': 0.0}, 'Integer': {'default': 0}, 'String': {'default': ''}, 'Parameter': {'default': None}}
COMMON_DEFAULTS = {'bounds': None, 'inclusive_bounds': (True, True), 'step': None, 'softbounds': None, 'doc': None, 'constant': False, 'readonly': False,
                   'precedence': None, 'per_instance': True, 'regex': None, 'instantiate': False}
SUBTYPE = {('Integer', 'Number'), ('Number', 'Parameter'), ('Integer', 'Parameter'), ('String', 'Parameter')}      # (sub, super)


def subsets(menu, k):
    out = [()]
    for n in range(1, k + 1):
        for combo in itertools.combinations(menu, n):
            if len({a for a, _ in combo}) == n:
                out.append(combo)
    return out


def is_subtype(a, b):
    return a == b or (a, b) in SUBTYPE


class C11(Harness):
    pid = 'C11'
    level = 'exploration'
    kind = 'enum'
    technique = ('bounded-exhaustive enumeration of hierarchies x Parameter types x explicitly specified attribute subsets on real class creation / '
                 'add_parameter, against an independent per-slot MRO resolver and the C01 acceptance predicate')
    rule = ('case = (hierarchy shape, type per level, attribute subset per level, route); non-trivial = the class was created (all slots compared with '
            'the resolver) or its creation was expected to fail; distinct by case')
    assumptions = ('types Parameter / Number / Integer / String; hierarchies: chains of 2 and 3 (middle class declaring or not), diamond, diamond with '
                   'redeclaration at the join; "the value held by the nearest class in the MRO that declares the Parameter" is read as the value that class\'s '
                   'Parameter object holds (i.e. after its own inheritance)',)

    def bounds(self, tier):
        return {'cases': len(self.cases(tier))}

    def cases(self, tier):
        out = []
        k2 = 2 if tier == 'quick' else 3
        type_seqs2 = [('Number', 'Number'), ('Parameter', 'Number'), ('Number', 'Integer'), ('String', 'Number'), ('String', 'String'), ('Number', 'Parameter'),
                      ('Parameter', 'String')]
        for t0, t1 in type_seqs2:
            for s0 in subsets(MENUS[t0], 2):
                for s1 in subsets(MENUS[t1], k2 if (t0, t1) == ('Number', 'Number') else 2):
                    for route in ('class', 'add_parameter'):
                        if route == 'add_parameter' and (len(s0) + len(s1)) > 2:
                            continue
                        out.append({'shape': 'chain2', 'types': [t0, t1], 'decl': [list(map(list, s0)), list(map(list, s1))], 'route': route})
        type_seqs3 = [('Number', 'Number', 'Number'), ('Number', None, 'Number'), ('Number', 'Parameter', 'Number'), ('Parameter', 'Number', 'Integer'),
                      ('Number', 'Integer', 'Integer'), ('Parameter', None, 'Integer'), ('String', None, 'Number')]
        one = 1 if tier == 'quick' else 2
        for ts in type_seqs3:
            for s0 in subsets(MENUS[ts[0]], 1):
                for s1 in (subsets(MENUS[ts[1]], 1) if ts[1] else [()]):
                    for s2 in subsets(MENUS[ts[2]], one):
                        out.append({'shape': 'chain3', 'types': list(ts), 'decl': [list(map(list, s0)), list(map(list, s1)), list(map(list, s2))], 'route': 'class'})
        for ts in [('Number', 'Number', 'Number', None), ('Number', None, 'Number', None), ('Number', 'Number', None, None), ('Number', 'Number', 'Number', 'Number'),
                   ('Parameter', 'Number', 'Number', 'Integer'), ('Number', 'Parameter', 'Number', None)]:
            for s0 in subsets(MENUS[ts[0]], 1):
                for s1 in (subsets(MENUS[ts[1]], 1) if ts[1] else [()]):
                    for s2 in (subsets(MENUS[ts[2]], 1) if ts[2] else [()]):
                        for s3 in (subsets(MENUS[ts[3]], 1) if ts[3] else [()]):
                            out.append({'shape': 'diamond', 'types': list(ts), 'decl': [list(map(list, x)) for x in (s0, s1, s2, s3)], 'route': 'class'})
        for pair in self.RETYPE:
            for route in ('class', 'add_parameter'):
                out.append({'retype': list(pair), 'route': route, 'shape': 'retype', 'types': list(pair)})
        return out

    # ------------------------------------------------------------------ resolver
    def resolve(self, cfg):
        """-> per level: None (does not declare) | dict(slots) | 'FAIL'.  Later levels are only defined if earlier ones did not fail."""
        shape = cfg['shape']
        n = len(cfg['types'])
        parents = {'chain2': {0: [], 1: [0]}, 'chain3': {0: [], 1: [0], 2: [1, 0]}, 'diamond': {0: [], 1: [0], 2: [0], 3: [1, 2, 0]}}[shape]
        mat = {}
        for lvl in range(n):
            t = cfg['types'][lvl]
            if t is None:
                mat[lvl] = None
                continue
            explicit = {a: (tuple(v) if isinstance(v, list) else v) for a, v in cfg['decl'][lvl]}
            anc = [a for a in parents[lvl] if mat.get(a) not in (None, 'FAIL')]
            if any(mat.get(a) == 'FAIL' for a in parents[lvl]):
                mat[lvl] = 'UNDEF'
                continue
            slots = {}
            for s in SLOTS[t]:
                if s in ('allow_None', 'instantiate'):
                    continue
                if s in explicit:
                    slots[s] = explicit[s]
                    continue
                for a in anc:
                    if s in SLOTS[cfg['types'][a]]:
                        slots[s] = mat[a][s]
                        break
                else:
                    slots[s] = TYPE_DEFAULTS[t].get(s, COMMON_DEFAULTS.get(s))
            if explicit.get('readonly') is True:
                slots['constant'] = True
            # allow_None: recomputed from the class's own declaration, never inherited
            own_default = explicit['default'] if 'default' in explicit else TYPE_DEFAULTS[t]['default']
            if own_default is None:
                slots['allow_None'] = True
            else:
                slots['allow_None'] = bool(explicit.get('allow_None', False))
            own_inst = False if explicit.get('readonly') is True else bool(explicit.get('instantiate', False))
            slots['instantiate'] = own_inst or any(mat[a]['instantiate'] for a in anc)
            type_change = any(not is_subtype(cfg['types'][a], t) for a in anc)
            slots['_type_change'] = type_change
            # must creation fail?
            d = slots['default']
            sc = {'allow_None': slots['allow_None'], 'bounds': slots.get('bounds'), 'inclusive': slots.get('inclusive_bounds', (True, True)),
                  'regex': slots.get('regex')}
            verdict = None
            if d is None and not type_change:
                # not re-checked; but the Parameter's own constructor validates an explicit None default against its own allow_None (always allowed)
                verdict = ACCEPT
            else:
                verdict = spec_accepts(t, sc, d, 'inst') if t != 'Parameter' else ACCEPT
                if d is None:
                    verdict = ACCEPT if slots['allow_None'] else REJECT
            # an explicit default is validated by the constructor against the *own* explicit constraints only
            if 'default' in explicit and explicit['default'] is not None and t != 'Parameter':
                own = {'allow_None': slots['allow_None'], 'bounds': explicit.get('bounds'), 'inclusive': explicit.get('inclusive_bounds', (True, True)),
                       'regex': explicit.get('regex')}
                if spec_accepts(t, own, explicit['default'], 'inst') == REJECT:
                    verdict = REJECT
            # ... and when no default is given, the unbound Parameter validates its type's implicit default (0.0, '', ...) against the
            # explicitly given constraints before any inheritance happens: whether such a declaration can be made at all is left open
            if 'default' not in explicit and TYPE_DEFAULTS[t]['default'] is not None and t != 'Parameter':
                own = {'allow_None': slots['allow_None'], 'bounds': explicit.get('bounds'), 'inclusive': explicit.get('inclusive_bounds', (True, True)),
                       'regex': explicit.get('regex')}
                if spec_accepts(t, own, TYPE_DEFAULTS[t]['default'], 'inst') == REJECT and verdict != REJECT:
                    verdict = 'EITHER'
            slots['_verdict'] = verdict
            mat[lvl] = 'FAIL' if verdict == REJECT else slots
        return mat

    # type pairs outside the four-type menu: (ancestor declaration, redeclaration in the subclass); oracle: if the class is created, its
    # Parameter accepts its own (inherited) default; creation is refused (RuntimeError) exactly when it does not
    RETYPE = [
        ('Date', 'Number'), ('CalendarDate', 'Number'), ('DateRange', 'NumericTuple'), ('CalendarDateRange', 'NumericTuple'), ('Integer', 'Number'),
        ('Number', 'Integer'), ('Number', 'Date'), ('String', 'Parameter'), ('NumericTuple', 'Tuple'), ('Tuple', 'NumericTuple'), ('Boolean', 'Parameter'),
        ('Parameter', 'Boolean'), ('List', 'Parameter'), ('XYCoordinates', 'NumericTuple'), ('NumericTuple', 'XYCoordinates'), ('Range', 'NumericTuple'),
    ]

    def run_retype(self, cfg):
        import datetime as dt
        import param
        reset_globals()
        anc, new = cfg['retype']
        defaults = {'Date': dt.datetime(2020, 1, 2), 'CalendarDate': dt.date(2020, 1, 2), 'DateRange': (dt.datetime(2020, 1, 1), dt.datetime(2020, 1, 2)),
                    'CalendarDateRange': (dt.date(2020, 1, 1), dt.date(2020, 1, 2)), 'Integer': 3, 'Number': 2.5, 'String': 'txt', 'NumericTuple': (1, 2.5, 3),
                    'Tuple': ('a', 1), 'Boolean': True, 'Parameter': 'anything', 'List': [1], 'XYCoordinates': (1.0, 2.0), 'Range': (1, 2)}
        vs = []
        key = dict(shape='retype', types='%s>%s' % (anc, new), route=cfg['route'])
        A = type('A', (param.Parameterized,), {'x': getattr(param, anc)(default=defaults[anc])})
        created, exc = None, None
        try:
            if cfg['route'] == 'class':
                created = type('B', (A,), {'x': getattr(param, new)()})
            else:
                created = type('B', (A,), {})
                created.param.add_parameter('x', getattr(param, new)())
        except Exception as e:
            exc = e
        # would the new Parameter type, declared on its own with that default, take it?
        try:
            getattr(param, new)(default=defaults[anc])
            fits = True
        except Exception:
            fits = False
        if exc is None:
            pobj = created.param['x']
            try:
                pobj._validate(created.x)
                own_ok = True
            except Exception:
                own_ok = False
            if not own_ok or not fits:
                vs.append(V('invalid-merged-default-accepted', '%s redeclared as %s: the class was created with default %r, which %s(default=...) itself %s' % (
                    anc, new, created.x, new, 'accepts' if fits else 'refuses'), level=1, **key))
        elif fits:
            vs.append(V('valid-merged-default-rejected', '%s redeclared as %s: creation raised %r although %s accepts the inherited default %r' % (
                anc, new, exc, new, defaults[anc]), level=1, **key))
        elif not isinstance(exc, RuntimeError):
            vs.append(V('wrong-exception', '%s redeclared as %s: creation raised %r, not the RuntimeError of a default that fails validation' % (anc, new, exc), level=1, **key))
        return Result(vs, outcome='retype', hits={'retype': 1}, nontrivial=True)

    def run_case(self, cfg):
        if cfg.get('retype'):
            return self.run_retype(cfg)
        import param
        reset_globals()
        mat = self.resolve(cfg)
        shape = cfg['shape']
        n = len(cfg['types'])
        vs = []
        key = dict(shape=shape, types='>'.join(str(t) for t in cfg['types']), route=cfg['route'])
        bases = {'chain2': {0: [], 1: [0]}, 'chain3': {0: [], 1: [0], 2: [1]}, 'diamond': {0: [], 1: [0], 2: [0], 3: [1, 2]}}[shape]
        classes = {}
        hits = {'created': 0, 'expected-failure': 0}
        for lvl in range(n):
            t = cfg['types'][lvl]
            if mat[lvl] == 'UNDEF':
                break
            bs = tuple(classes[b] for b in bases[lvl]) or (param.Parameterized,)
            exc = None
            try:
                ns = {}
                pobj = None
                if t is not None:
                    kw = {a: (tuple(v) if isinstance(v, list) else v) for a, v in cfg['decl'][lvl]}
                    pobj = getattr(param, t)(**kw)
                if cfg['route'] == 'add_parameter' and lvl == n - 1 and pobj is not None:
                    K = type('K%d' % lvl, bs, {})
                    K.param.add_parameter('x', pobj)
                else:
                    if pobj is not None:
                        ns['x'] = pobj
                    K = type('K%d' % lvl, bs, ns)
                classes[lvl] = K
            except Exception as e:
                exc = e
            ctx = '%s %s decl=%r level %d' % (shape, key['types'], cfg['decl'], lvl)
            if mat[lvl] == 'FAIL':
                hits['expected-failure'] += 1
                if exc is None:
                    vs.append(V('invalid-merged-default-accepted', '%s: class creation succeeded although the merged default violates the merged constraints/type; '
                                'x.default=%r bounds=%r allow_None=%r' % (ctx, K.param['x'].default, getattr(K.param['x'], 'bounds', None), K.param['x'].allow_None), level=lvl, **key))
                break
            if exc is not None:
                v = mat[lvl]['_verdict'] if isinstance(mat[lvl], dict) else None
                if v == ACCEPT or t is None:
                    vs.append(V('valid-declaration-rejected', '%s: raised %r although the merged default satisfies the merged constraints' % (ctx, exc), level=lvl, **key))
                break
            if t is None:
                continue
            hits['created'] += 1
            p = K.param['x']
            for s, exp in mat[lvl].items():
                if s.startswith('_'):
                    continue
                got = getattr(p, s)
                if got != exp or type(got) is not type(exp):
                    vs.append(V('slot-value', '%s: x.%s is %r, resolver says %r' % (ctx, s, got, exp), slot=s, level=lvl, **key))
            if K.__dict__.get('x') is not p:
                vs.append(V('param-object', '%s: K.param[x] is not the declared Parameter' % ctx, level=lvl, **key))
        return Result(vs[:4], outcome='%s/%s' % (shape, key['types']), hits=hits, nontrivial=True)


HARNESS = C11()
