"""C12 — instances and classes do not leak values or metadata into each other.

Explicit-state BFS over instance creation, instance / class / subclass assignments, in-place mutation of values and of Parameter
attributes, against an ownership model: per-class defaults with attribute fall-through and copy-on-write, per-instance value store,
identity (aliasing) tracking of every mutable value, and before/after snapshots of Parameter attributes."""
import collections
import copy

from mc.engine import Harness, Result, V
from mc.heapfp import try_fingerprint
from mc.world import reset_globals

PARAMS = ['l', 's', 'n', 'k', 'g', 'x', 'lr', 'ro', 'tx']
INSTANTIATED = ['l', 'x', 'lr', 'tx']


def rd(h, p):
    """tx is an immutable tuple around a mutable list (Tuple(default=([6],), instantiate=True)): the list is what the model tracks"""
    v = getattr(h, p)
    return v[0] if p == 'tx' and isinstance(v, tuple) and len(v) == 1 else v
ATTRS = [('n', 'bounds'), ('g', 'bounds'), ('n', 'doc'), ('sel', '_objects'), ('sel0', '_objects'), ('n', 'constant'), ('l', 'bounds'),
         ('osel', '_objects'), ('osel', 'names')]
PARENT = {'Leaf': 'Sub2', 'Sub2': 'Sub', 'Sub': 'M'}
CLASSES = ['M', 'Sub', 'Sub2', 'Leaf']


class Gen:
    """a stateful number generator (a Dynamic value)"""
    def __init__(self, start):
        self.n = start

    def __call__(self):
        self.n += 1
        return self.n

    def __verif_fp__(self):
        return self.n


class Model:
    """tokens stand for mutable objects; contents[token] = list contents"""

    def __init__(self):
        self.contents = {}
        self.next = 0
        self.cls = {k: {} for k in CLASSES}   # own class-level entries: param -> value (int or ('tok', t))
        self.inst = []                        # dicts: cls, vals{param: value}

    def new(self, contents):
        t = 't%d' % self.next
        self.next += 1
        self.contents[t] = list(contents)
        return ('tok', t)

    def class_value(self, k, p):
        while p not in self.cls[k]:
            k = PARENT[k]
        return self.cls[k][p]

    def value(self, holder, p):
        if isinstance(holder, int):
            i = self.inst[holder]
            if p in i['vals']:
                return i['vals'][p]
            return self.class_value(i['cls'], p)
        return self.class_value(holder, p)


class C12(Harness):
    pid = 'C12'
    level = 'model_checking'
    kind = 'bfs'
    technique = ('explicit-state BFS over creation / assignment / in-place mutation histories on real classes and instances vs. an ownership model with '
                 'alias (identity) tracking; Parameter attributes checked by before/after snapshots')
    rule = ('state = (ownership model, heap fingerprint); transition = one operation; after every step the full observation matrix (every class and '
            'instance x every parameter: value, contents and alias class) must equal the model, and an instance-level attribute change must leave '
            'the attributes seen by every other holder untouched')
    assumptions = ('class M with l (List, instantiate), s (shared mutable default), n (bounded Number), k (constant, mutable default), g (per_instance=False), '
                   'sel (Selector with mutable objects); subclass Sub; at most 3 instances; whether instances/subclasses follow a later class-level '
                   '*attribute* change is not judged (only the directions the statement fixes)',)

    def bounds(self, tier):
        return {'depth': 3 if tier == 'quick' else 4, 'max_instances': 3}

    def depth(self, tier, cfg):
        return 3 if tier == 'quick' else 4

    def configs(self, tier):
        return [{}, {'falsy': True}]

    def fresh(self, cfg=None):
        import param
        cfg = cfg or {}
        reset_globals()
        m = Model()
        d = {'l': m.new([1]), 's': m.new([10]), 'n': 1, 'k': m.new([5]), 'g': 2, 'x': m.new([4]), 'lr': m.new([3]), 'ro': m.new([8]), 'tx': m.new([6])}
        real = {t: list(c) for t, c in m.contents.items()}
        ns = {
            'l': param.List(default=real['t0']), 's': param.Parameter(default=real['t1']), 'n': param.Number(default=1, bounds=(0, 10), doc='d0'),
            'k': param.Parameter(default=real['t2'], constant=True), 'g': param.Number(default=2, bounds=(0, 10), per_instance=False),
            'sel': param.Selector(objects=['a', 'b']), 'sel0': param.Selector(),
            'x': param.Parameter(default=real['t3'], instantiate=True), 'lr': param.List(default=real['t4'], allow_refs=True),
            'ro': param.Parameter(default=real['t5'], readonly=True),
            'tx': param.Tuple(default=(real['t6'],), instantiate=True),
            'osel': param.Selector(objects=collections.OrderedDict([('lo', 1), ('hi', 2)])),     # named objects kept in a dict subclass
            'dg': param.Number(default=Gen(0))}
        if cfg.get('falsy'):
            ns['__len__'] = lambda self: 0          # an (empty) container-like Parameterized is falsy
        M = type('M', (param.Parameterized,), ns)
        # Sub redeclares x with a more specific type that does not instantiate by default: instantiate=True must be inherited
        Sub = type('Sub', (M,), {'x': param.Selector(check_on_set=False)})
        # two more levels that declare nothing: their .param caches are filled when they are instantiated
        Sub2 = type('Sub2', (Sub,), {})
        Leaf = type('Leaf', (Sub2,), {})
        m.cls['M'] = dict(d)
        w = {'param': param, 'M': M, 'Sub': Sub, 'Sub2': Sub2, 'Leaf': Leaf, 'inst': []}
        return w, m

    def enabled(self, w, m):
        ops = []
        if len(m.inst) < 3:
            ops += [['new', 'M', None], ['new', 'Sub', None], ['new', 'M', 'l'], ['new', 'Sub', 'skipref'], ['new', 'M', 'dg'], ['new', 'Leaf', None], ['new', 'Sub', 'sel0']]
        holders = list(range(len(m.inst)))
        for i in holders:
            ops += [['iset', i, 'n', 5], ['iupdate', i, 'n', 4], ['iset', i, 's', 'new'], ['iset', i, 'l', 'new'], ['mut', i, 'l'], ['mut', i, 's'], ['mut', i, 'k'], ['mut', i, 'x'], ['mut', i, 'tx'], ['mut', i, 'lr'], ['objmut0', i], ['iset', i, 'sel0', 'alpha'],
                    ['attr', i, 'n', 'bounds', [0, 5]], ['attr', i, 'g', 'bounds', [0, 6]], ['attr', i, 'n', 'doc', 'di'], ['objmut', i], ['touch', i, 'n'],
                    ['iset', i, 'n', 'cur'], ['iset', i, 's', 'cur'], ['oselmut', i], ['trigger', i, 'n'], ['trigger', i, 's']]
        for k in ('M', 'Sub'):
            ops += [['cset', k, 'n', 3 if k == 'M' else 4], ['cset', k, 's', 'new'], ['cset', k, 'l', 'new'], ['cset', k, 'k', 'new'],
                    ['mut', k, 'l'], ['mut', k, 's'], ['mut', k, 'tx'], ['attr', k, 'n', 'bounds', [0, 8] if k == 'M' else [0, 9]], ['objmut', k], ['cdefault', k, 'ro']]
        ops.append(['csetsel', 'Sub'])          # the subclass gets its own copy of the inherited Selector
        return ops

    # -------- observation
    def holders(self, w, m):
        return [(k, w[k]) for k in CLASSES] + [(i, o) for i, o in enumerate(w['inst'])]

    def attr_snapshot(self, w, m):
        snap = {}
        for name, h in self.holders(w, m):
            for p, a in ATTRS:
                if isinstance(name, int):
                    pobj = h._param__private.params.get(p) or type(h).param[p]
                else:
                    pobj = h.param[p]
                v = getattr(pobj, a)
                snap[(name, p, a)] = copy.copy(v) if isinstance(v, (list, dict)) else v
        return snap

    def check_matrix(self, w, m, ctx, op):
        vs = []
        tok_to_id, id_to_tok = {}, {}
        for name, h in self.holders(w, m):
            for p in PARAMS:
                exp = m.value(name, p)
                got = rd(h, p)
                key = dict(holder='inst' if isinstance(name, int) else name, param=p, op=op[0])
                if isinstance(exp, tuple):
                    t = exp[1]
                    if not isinstance(got, list) or got != m.contents[t]:
                        vs.append(V('value', '%s: %s.%s is %r, model says %r' % (ctx, name, p, got, m.contents[t]), **key))
                        continue
                    if t in tok_to_id and tok_to_id[t] != id(got):
                        vs.append(V('not-shared', '%s: %s.%s should be the same object as another holder of it (shared by identity) but is a different object' % (ctx, name, p), **key))
                    elif id(got) in id_to_tok and id_to_tok[id(got)] != t:
                        vs.append(V('unexpected-sharing', '%s: %s.%s is the very object also seen as %s; they must be independent' % (ctx, name, p, id_to_tok[id(got)]), **key))
                    tok_to_id.setdefault(t, id(got))
                    id_to_tok.setdefault(id(got), t)
                elif got != exp:
                    vs.append(V('value', '%s: %s.%s is %r, model says %r' % (ctx, name, p, got, exp), **key))
        # dynamic generator default: every instance that did not get a plain number owns a copy of the class's generator
        cg = w['M'].param.get_value_generator('dg')
        seen_gens = {id(cg): 'class'}
        for i, inst in enumerate(w['inst']):
            g = inst.param.get_value_generator('dg')
            if m.inst[i]['vals'].get('dg_plain'):
                if g != 0.5:
                    vs.append(V('value', '%s: instance %d was built with dg=0.5 but holds %r' % (ctx, i, g), holder='inst', param='dg', op=op[0]))
                continue
            if not isinstance(g, Gen):
                vs.append(V('value', '%s: instance %d: dg generator is %r' % (ctx, i, g), holder='inst', param='dg', op=op[0]))
            elif id(g) in seen_gens:
                vs.append(V('unexpected-sharing', '%s: instance %d shares its number generator with %s' % (ctx, i, seen_gens[id(g)]), holder='inst', param='dg', op=op[0]))
            seen_gens[id(g)] = 'instance %d' % i
        return vs

    def execute(self, cfg, history):
        w, m = self.fresh(cfg)
        param = w['param']
        vs = []
        hits = {}
        if not history:
            vs = self.check_matrix(w, m, 'initial state', ['init'])
        for step, op in enumerate(history):
            last = step == len(history) - 1
            ctx = 'history %r' % (history,)
            k = op[0]
            before = self.attr_snapshot(w, m) if last else None
            unchanged_for = None       # holders whose attributes must be untouched by this op
            try:
                if k == 'new':
                    cls = w[op[1]]
                    vals = {}
                    # instantiate=True defaults are deep-copied, constants are referenced
                    for p in INSTANTIATED:
                        vals[p] = m.new(m.contents[m.class_value(op[1], p)[1]])
                    if op[2] == 'l':
                        nl = m.new([7])
                        obj = cls(l=list(m.contents[nl[1]]))
                        vals['l'] = nl
                    elif op[2] == 'dg':
                        obj = cls(dg=0.5)              # a plain number for the dynamic parameter, through the constructor
                        vals['dg_plain'] = True
                    elif op[2] == 'sel0':
                        obj = cls(sel0='ctor%d' % len(m.inst))       # an open Selector given a new value through the constructor (recorded on the instance only)
                    elif op[2] == 'skipref':
                        def skipper(v):
                            raise param.Skip()
                        obj = cls(lr=param.bind(skipper, w['M'].param.g))     # a reference that yields no value (yet)
                    else:
                        obj = cls()
                    vals['k'] = m.class_value(op[1], 'k')
                    vals['ro'] = m.class_value(op[1], 'ro')
                    w['inst'].append(obj)
                    m.inst.append({'cls': op[1], 'vals': vals})
                elif k == 'iset' and op[2] == 'sel0':
                    setattr(w['inst'][op[1]], 'sel0', op[3])      # check_on_set is False: the value is added to this instance's objects
                    unchanged_for = [n for n, _ in self.holders(w, m) if n != op[1]]
                elif k == 'iset':
                    obj = w['inst'][op[1]]
                    if op[3] == 'new':
                        t = m.new([20 + len(m.contents)])
                        setattr(obj, op[2], list(m.contents[t[1]]))
                        m.inst[op[1]]['vals'][op[2]] = t
                    elif op[3] == 'cur':
                        # the instance explicitly assigns the very object that is the class default right now: from here on it is the instance's own value
                        cur = getattr(type(obj), op[2])
                        setattr(obj, op[2], cur)
                        m.inst[op[1]]['vals'][op[2]] = m.class_value(m.inst[op[1]]['cls'], op[2])
                    else:
                        setattr(obj, op[2], op[3])
                        m.inst[op[1]]['vals'][op[2]] = op[3]
                elif k == 'iupdate':
                    w['inst'][op[1]].param.update(**{op[2]: op[3]})
                    m.inst[op[1]]['vals'][op[2]] = op[3]
                elif k == 'cdefault':
                    t = m.new([40 + len(m.contents)])
                    w[op[1]].param[op[2]].default = list(m.contents[t[1]])       # replaces the default of the (shared) class Parameter
                    for kk in ('M', 'Sub'):
                        if kk == op[1] or op[2] not in m.cls[kk] or kk == 'Sub':
                            pass
                    owner = op[1] if op[2] in m.cls[op[1]] else 'M'
                    m.cls[owner][op[2]] = t
                elif k == 'csetsel':
                    setattr(w[op[1]], 'sel', 'b')
                    m.cls[op[1]]['sel-own'] = True
                elif k == 'cset':
                    cls = w[op[1]]
                    if op[3] == 'new':
                        t = m.new([30 + len(m.contents)])
                        setattr(cls, op[2], list(m.contents[t[1]]))
                        m.cls[op[1]][op[2]] = t
                    else:
                        setattr(cls, op[2], op[3])
                        m.cls[op[1]][op[2]] = op[3]
                elif k == 'mut':
                    holder = op[1]
                    h = w['inst'][holder] if isinstance(holder, int) else w[holder]
                    rd(h, op[2]).append(99)
                    t = m.value(holder, op[2])
                    m.contents[t[1]].append(99)
                elif k == 'attr':
                    holder = op[1]
                    h = w['inst'][holder] if isinstance(holder, int) else w[holder]
                    val = tuple(op[4]) if isinstance(op[4], list) else op[4]
                    setattr(h.param[op[2]], op[3], val)
                    if isinstance(holder, int) and op[2] != 'g':
                        unchanged_for = [n for n, _ in self.holders(w, m) if n != holder]
                    elif isinstance(holder, int):
                        unchanged_for = []          # per_instance=False: shared by declaration
                    else:
                        unchanged_for = []          # class-level attribute changes: the statement fixes no direction
                    if last:
                        got = getattr(h.param[op[2]], op[3])
                        if got != val:
                            vs.append(V('own-attribute', '%s: attribute read back as %r' % (ctx, got), op=k))
                elif k == 'trigger':
                    # announcing the current value is not setting it: an instance that follows the class goes on following it
                    w['inst'][op[1]].param.trigger(op[2])
                elif k == 'oselmut':
                    w['inst'][op[1]].param.osel.objects['n%s' % op[1]] = 30 + op[1]
                    unchanged_for = [n for n, _ in self.holders(w, m) if n != op[1]]
                elif k == 'objmut0':
                    w['inst'][op[1]].param.sel0.objects.append('q%s' % op[1])
                    unchanged_for = [n for n, _ in self.holders(w, m) if n != op[1]]
                elif k == 'objmut':
                    holder = op[1]
                    h = w['inst'][holder] if isinstance(holder, int) else w[holder]
                    h.param.sel.objects.append('z%s' % holder)
                    if isinstance(holder, int):
                        unchanged_for = [n for n, _ in self.holders(w, m) if n != holder]
                    elif holder == 'Sub' and m.cls['Sub'].get('sel-own'):
                        # the subclass has its own Parameter: what it does to it does not reach the superclass (or the superclass's instances)
                        unchanged_for = ['M'] + [i for i, d in enumerate(m.inst) if d['cls'] == 'M']
                    else:
                        unchanged_for = []
                elif k == 'touch':
                    w['inst'][op[1]].param[op[2]]
                    unchanged_for = [n for n, _ in self.holders(w, m)]
            except Exception as e:
                if last:
                    vs.append(V('op-raises', '%s: %r raised %r' % (ctx, op, e), op=k, exc=type(e).__name__))
                break
            if not last:
                continue
            hits[k] = 1
            vs += self.check_matrix(w, m, ctx, op)
            if unchanged_for is not None:
                after = self.attr_snapshot(w, m)
                for key_, v in before.items():
                    if key_[0] in unchanged_for and key_ in after and after[key_] != v:
                        vs.append(V('attribute-leak', '%s: %r changed %s.param.%s.%s from %r to %r' % (ctx, op, key_[0], key_[1], key_[2], v, after[key_]),
                                    op=k, source='inst' if isinstance(op[1], int) else op[1], target='inst' if isinstance(key_[0], int) else key_[0],
                                    attr=key_[2]))
            elif k in ('iset', 'mut', 'new', 'cset'):
                after = self.attr_snapshot(w, m)
                for key_, v in before.items():
                    if key_ in after and after[key_] != v:
                        vs.append(V('attribute-leak', '%s: value operation %r changed attribute %s.param.%s.%s from %r to %r' % (ctx, op, key_[0], key_[1], key_[2], v, after[key_]),
                                    op=k, attr=key_[2]))
        fp = None
        if not vs:
            fp = try_fingerprint([(k, w[k]) for k in CLASSES] + [('i%d' % i, o) for i, o in enumerate(w['inst'])],
                                 extra=repr((m.cls, m.inst, sorted(m.contents.items()))))
        nxt = [] if vs else self.enabled(w, m)
        return Result(vs[:4], fp=fp, next_ops=nxt, outcome=repr((m.cls, [i['vals'] for i in m.inst])), hits=hits)


HARNESS = C12()
