"""C01 — accepted values always satisfy the parameter's declared constraints.

Bounded-exhaustive enumeration: parameter type x constraint configuration x candidate value x assignment route,
each decided against the independent predicate models/spec.py."""
import abc
import datetime as dt
import decimal
import fractions
import itertools
import json
import math
import os

from mc.engine import Harness, Result, V
from mc.world import reset_globals
from models.spec import spec_accepts, ACCEPT, REJECT, EITHER

NAN = float('nan')
INF = float('inf')


class K:
    pass


class KSub(K):
    pass


class KMetaSub(K, metaclass=abc.ABCMeta):
    """a genuine subclass of K whose own class is not `type` (abstract base classes, Parameterized classes, enums ... are like that)"""


KI = K()


def _gen():
    yield 1


_lam = lambda: 3  # noqa: E731

D0, D1_, D2_ = dt.date(2020, 1, 1), dt.date(2020, 6, 1), dt.date(2020, 12, 31)
DT0, DT1, DT2 = dt.datetime(2020, 1, 1), dt.datetime(2020, 6, 1, 12), dt.datetime(2020, 12, 31)

POOL = [
    ('None', None), ('True', True), ('False', False), ('0', 0), ('1', 1), ('-1', -1), ('5', 5), ('10', 10), ('11', 11),
    ('0.0', 0.0), ('5.0', 5.0), ('0.5', 0.5), ('1.0', 1.0), ('nan', NAN), ('inf', INF), ('-inf', -INF),
    ('Fraction(1,2)', fractions.Fraction(1, 2)), ('Fraction(5)', fractions.Fraction(5)), ('Decimal(5)', decimal.Decimal(5)),
    ('Decimal(0.5)', decimal.Decimal('0.5')), ('2**70', 2 ** 70),
    ("''", ''), ("'a'", 'a'), ("'ab'", 'ab'), ("'b'", 'b'), ("'cab'", 'cab'), ("'abc'", 'abc'), ("b'cab'", b'cab'), ("b''", b''), ("b'a'", b'a'), ("b'ab'", b'ab'), ("b'b'", b'b'),
    ('()', ()), ('(1,)', (1,)), ('(1,2)', (1, 2)), ('(1.5,2.5)', (1.5, 2.5)), ('(nan,1)', (NAN, 1)), ('(1,nan)', (1, NAN)),
    ("('a',1)", ('a', 1)), ('(5,1)', (5, 1)), ('(1,2,3)', (1, 2, 3)), ('(0,10)', (0, 10)), ('(10,0)', (10, 0)), ('(-1,5)', (-1, 5)),
    ('(5,11)', (5, 11)), ('(0,0)', (0, 0)), ('(True,1)', (True, 1)), ('(None,1)', (None, 1)), ('[1,2] as range', [1, 2]),
    ('[]', []), ('[1]', [1]), ("[1,'a']", [1, 'a']), ('[int]', [int]), ("['a']", ['a']), ('[1,2,3]', [1, 2, 3]), ('[len]', [len]),
    ('[True]', [True]), ('[K,KSub]', [K, KSub]), ('[1.5]', [1.5]), ('[(1,2)]', [(1, 2)]), ("['a',1]", ['a', 1]), ("['zz']", ['zz']),
    ('{}', {}), ("{'a':1}", {'a': 1}),
    ('date0', D0), ('date1', D1_), ('datetime0', DT0), ('datetime1', DT1), ('date(2019)', dt.date(2019, 12, 31)), ('datetime(2021)', dt.datetime(2021, 1, 1)),
    ('(date0,date1)', (D0, D1_)), ('(date1,date0)', (D1_, D0)), ('(dt0,dt1)', (DT0, DT1)), ('(dt1,dt0)', (DT1, DT0)), ('(date0,dt1)', (D0, DT1)),
    ('(dt0,date1)', (DT0, D1_)), ('[date0,date1]', [D0, D1_]), ('(date0,)', (D0,)), ('(date0,date1,date1)', (D0, D1_, D1_)), ('(date0,5)', (D0, 5)),
    ('(date2019,date1)', (dt.date(2019, 12, 31), D1_)), ('(date1,date2021)', (D1_, dt.date(2021, 1, 1))),
    ('len', len), ('lambda', _lam), ('genfunc', _gen), ('class K', K), ('class KSub', KSub), ('K()', KI), ('int', int),
    ("'#fff'", '#fff'), ("'#ffff'", '#ffff'), ("'fff'", 'fff'), ("'#ffffff'", '#ffffff'), ("'red'", 'red'), ("'RED'", 'RED'), ("'notacolor'", 'notacolor'),
    ("'#ggg'", '#ggg'), ("'#fff\\n'", '#fff\n'), ("'ffffff\\n'", 'ffffff\n'), ("'red\\n'", 'red\n'),
    ('[None]', [None]), ('[None,1]', [None, 1]), ('[KMetaSub]', [KMetaSub]), ('class KMetaSub', KMetaSub),
]

SEL_OBJECTS = ['a', 1, (1, 2), 0.5]
ROUTES = ['default', 'ctor', 'inst', 'cls', 'update', 'clsupdate', 'deser', 'reconf_cls', 'reconf_inst', 'inherit', 'ctor_const', 'edit_const']
DESER_TYPES = {'Parameter', 'String', 'Boolean', 'Number', 'Integer', 'Magnitude', 'List', 'Dict', 'Selector', 'ObjectSelector', 'Color'}


def bounds_axis(lo, hi):
    return [None, (lo, None), (None, hi), (lo, hi)]


INCL = list(itertools.product((True, False), repeat=2))


def all_configs(tier):
    out = []

    def add(ptype, **kw):
        d = {'ptype': ptype}
        d.update(kw)
        out.append(d)
    for an in (False, True):
        add('Parameter', allow_None=an)
        add('Boolean', allow_None=an)
        add('Callable', allow_None=an)
        add('Action', allow_None=an)
        add('Dict', allow_None=an)
        add('XYCoordinates', allow_None=an)
        add('Filename', allow_None=an)
        for rx in (None, '^a.*$', 'b$', 'ab'):
            add('String', allow_None=an, regex=rx)
            add('Bytes', allow_None=an, regex=rx)
        for named in (True, False):
            add('Color', allow_None=an, allow_named=named)
        for ptype, lo, hi in (('Number', 0, 10), ('Integer', 0, 10), ('Range', 0, 10)):
            for b in bounds_axis(lo, hi):
                for inc in (INCL if b is not None else [(True, True)]):
                    add(ptype, allow_None=an, bounds=b, inclusive=inc)
        for ptype in ('Date', 'CalendarDate', 'DateRange', 'CalendarDateRange'):
            for b in bounds_axis('D0', 'D2'):
                for inc in (INCL if b is not None else [(True, True)]):
                    add(ptype, allow_None=an, bounds=b, inclusive=inc)
        for inc in INCL:
            add('Magnitude', allow_None=an, inclusive=inc)
        for ln in (1, 2):
            add('Tuple', allow_None=an, length=ln)
            add('NumericTuple', allow_None=an, length=ln)
        for b in ((0, None), (1, 2), (None, 1), None, (0, 0), (None, 0)):
            for it in (None, 'int', 'int_str'):
                add('List', allow_None=an, bounds=b, item_type=it)
            add('HookList', allow_None=an, bounds=b)
        add('List', allow_None=an, bounds=(0, None), item_type='K', is_instance=False)
        for ptype in ('Selector', 'ObjectSelector', 'ListSelector'):
            for style in ('list', 'dict'):
                for cos in (True, False):
                    add(ptype, allow_None=an, style=style, check_on_set=cos)
        for c in ('int', 'int_str', 'K'):
            for isi in (True, False):
                add('ClassSelector', allow_None=an, cls=c, is_instance=isi)
    return out


TYPES = {'int': int, 'int_str': (int, str), 'K': K, None: None}
DATES = {'D0': D0, 'D2': D2_}


def materialize(cfg):
    """-> (constructor kwargs, spec cfg, extra candidate values)"""
    import param
    pt = cfg['ptype']
    kw, sc, extra = {}, dict(cfg), []
    kw['allow_None'] = cfg['allow_None']
    if 'regex' in cfg:
        kw['regex'] = cfg['regex'].encode() if (pt == 'Bytes' and cfg['regex']) else cfg['regex']
    if 'allow_named' in cfg:
        kw['allow_named'] = cfg['allow_named']
    if 'length' in cfg:
        kw['length'] = cfg['length']
    if pt in ('Number', 'Integer', 'Range', 'Date', 'CalendarDate', 'DateRange', 'CalendarDateRange', 'Magnitude'):
        b = cfg.get('bounds')
        if b is not None:
            b = tuple(DATES.get(x, x) if isinstance(x, str) else x for x in b)
        if pt != 'Magnitude':
            kw['bounds'] = b
            sc['bounds'] = b
        kw['inclusive_bounds'] = tuple(cfg['inclusive'])
        sc['inclusive'] = tuple(cfg['inclusive'])
        bb = b if pt != 'Magnitude' else (0.0, 1.0)
        # boundary and just-outside-boundary values
        if bb is not None:
            for x in bb:
                if x is None:
                    continue
                if isinstance(x, dt.date):
                    cands = [x, dt.datetime(x.year, x.month, x.day), x - dt.timedelta(days=1), x + dt.timedelta(days=1),
                             dt.datetime(x.year, x.month, x.day) + dt.timedelta(microseconds=1),
                             dt.datetime(x.year, x.month, x.day) - dt.timedelta(microseconds=1)]
                else:
                    cands = [x, float(x), x - 1, x + 1, math.nextafter(float(x), INF), math.nextafter(float(x), -INF)]
                for c in cands:
                    extra.append(('bnd:%r' % (c,), c))
                    if pt in ('Range', 'DateRange', 'CalendarDateRange'):
                        mid = 5 if not isinstance(x, dt.date) else D1_
                        try:
                            extra.append(('bnd:(%r,mid)' % (c,), (c, mid) if c <= to_cmp(mid, c) else (mid, c)))
                        except TypeError:
                            pass
    if pt == 'Filename':
        from mc import pin
        sp = os.path.join(pin.VERIF, 'mc')        # deliberately not the working directory of the checks
        kw['search_paths'] = [sp]
        sc['_search_paths'] = [sp]
        import pathlib
        extra += [("'engine.py'", 'engine.py'), ("'pin.py'", 'pin.py'), ("'nope.txt'", 'nope.txt'), ("Path('engine.py')", pathlib.Path('engine.py')),
                  ("abs engine.py", os.path.join(sp, 'engine.py')), ("'check' (only in cwd)", 'check'), ("'mc' (a directory)", 'mc')]
    if pt in ('List', 'HookList'):
        kw['bounds'] = cfg['bounds']
        sc['bounds'] = cfg['bounds']
        if pt == 'List':
            kw['item_type'] = TYPES[cfg.get('item_type')]
            sc['_item_type'] = TYPES[cfg.get('item_type')]
            if 'is_instance' in cfg:
                kw['is_instance'] = cfg['is_instance']
    if pt in ('Selector', 'ObjectSelector', 'ListSelector'):
        objs = list(SEL_OBJECTS)
        kw['objects'] = objs if cfg['style'] == 'list' else {'k%d' % i: o for i, o in enumerate(objs)}
        kw['check_on_set'] = cfg['check_on_set']
        sc['_objects'] = list(SEL_OBJECTS)
    if pt == 'ClassSelector':
        kw['class_'] = TYPES[cfg['cls']]
        kw['is_instance'] = cfg['is_instance']
        sc['_class'] = TYPES[cfg['cls']]
    return kw, sc, extra


def reconfiguration(pt, cfg):
    """a change of the constraints after declaration: [(Parameter attribute, new value, spec key, spec value)] or None"""
    if pt in ('Number', 'Integer'):
        return [('bounds', (2, 8), 'bounds', (2, 8))]
    if pt == 'List':
        it = cfg.get('item_type')
        new = str if it in ('int', 'int_str') else int
        return [('item_type', new, '_item_type', new), ('bounds', (0, 2), 'bounds', (0, 2))]
    if pt == 'String':
        return [('regex', '^ab', 'regex', '^ab')]
    if pt == 'ClassSelector':
        return [('class_', str, '_class', str)]
    if pt in ('Tuple', 'NumericTuple'):
        return [('length', 3, 'length', 3)]
    return None


def to_cmp(mid, c):
    if isinstance(c, dt.datetime) and not isinstance(mid, dt.datetime):
        return dt.datetime(mid.year, mid.month, mid.day)
    return mid


def jsonable(v):
    try:
        s = json.dumps(v)
    except (TypeError, ValueError):
        return False
    def has_tuple(x):
        if isinstance(x, tuple):
            return True
        if isinstance(x, list):
            return any(has_tuple(y) for y in x)
        if isinstance(x, dict):
            return any(has_tuple(y) for y in x.values()) or any(not isinstance(k, str) for k in x)
        return False
    return not has_tuple(v)


class C01(Harness):
    pid = 'C01'
    level = 'exploration'
    kind = 'enum'
    technique = ('bounded-exhaustive enumeration of parameter type x constraint configuration x candidate value x assignment route on the '
                 'real validators, decided against an independent acceptance predicate')
    rule = ('case = (type, constraint configuration, route); each case tries every pool value plus the configuration\'s boundary and '
            'just-outside values; non-trivial = (case, value) pairs for which the specification is determinate (ACCEPT or REJECT)')
    assumptions = ('numpy/pandas types (Array, DataFrame, Series) and filesystem types (Path, FileSelector) are outside the alphabet; '
                   'cases the documentation does not decide (bool as number, callables in Dynamic parameters, reversed ranges, partial regex '
                   'matches, datetime inside CalendarDateRange) are EITHER and counted, not judged',)

    def bounds(self, tier):
        return {'configs': len(all_configs(tier)), 'pool_values': len(POOL), 'routes': ROUTES}

    def cases(self, tier):
        out = []
        for cfg in all_configs(tier):
            for r in ROUTES:
                if r == 'deser' and cfg['ptype'] not in DESER_TYPES:
                    continue
                if r in ('reconf_cls', 'reconf_inst') and reconfiguration(cfg['ptype'], cfg) is None:
                    continue
                if r == 'inherit' and cfg['ptype'] in ('Parameter', 'Selector', 'ObjectSelector', 'ListSelector', 'Filename', 'ClassSelector'):
                    continue
                out.append({'cfg': cfg, 'route': r})
        return out

    def run_case(self, case):
        import param
        reset_globals()
        cfg, route = case['cfg'], case['route']
        pt = cfg['ptype']
        ptype = getattr(param, pt)
        kw, sc, extra = materialize(cfg)
        values = POOL + extra
        vs = []
        hits = {ACCEPT: 0, REJECT: 0, EITHER: 0}
        nt = 0
        # a valid default for the routes that need a declared class
        default = None
        if route != 'default':
            if pt in ('Selector', 'ObjectSelector'):
                default = SEL_OBJECTS[0]
            elif pt == 'ListSelector':
                default = [SEL_OBJECTS[0]]
            else:
                for _, v in values:
                    if v is not None and not isinstance(v, bool) and not callable(v) and spec_accepts(pt, sc, v, 'inst') == ACCEPT:
                        default = v
                        break
                else:
                    return Result([], nontrivial=False, outcome='unsatisfiable-config')

        def build(dflt, **more):
            k = dict(kw, **more)
            if pt in ('Selector', 'ObjectSelector', 'ListSelector'):
                k['objects'] = list(k['objects']) if isinstance(k['objects'], list) else dict(k['objects'])
            return ptype(default=dflt, **k)

        rc = reconfiguration(pt, cfg) if route in ('reconf_cls', 'reconf_inst') else None
        if rc:
            sc = dict(sc)
            for _, _, sk, sv in rc:
                sc[sk] = sv
        if route == 'inherit':
            # a subclass redeclares the Parameter giving only a default: the constraints are inherited, allow_None is not
            sc = dict(sc, allow_None=False)
        n = 0
        for label, v in values:
            if route == 'deser':
                if not jsonable(v):
                    continue
                v = json.loads(json.dumps(v))
            exp = spec_accepts(pt, sc, v, route)
            hits[exp] += 1
            n += 1
            exc = None
            got_back = None
            prev = default
            try:
                if route == 'default':
                    p = build(v)
                    X = type('X', (param.Parameterized,), {'p': p})
                    got_back = X.p
                else:
                    X = type('X', (param.Parameterized,), {'p': build(default, **({'constant': True} if route in ('ctor_const', 'edit_const') else {}))})
                    if route == 'ctor_const':
                        # a constant parameter takes its value through the constructor: validated like any other
                        x = X(p=v)
                        got_back = x.p
                    elif route == 'edit_const':
                        x = X()
                        prev = x.p
                        try:
                            with param.edit_constant(x):
                                x.p = v
                        finally:
                            got_back = x.p
                    elif route == 'ctor':
                        x = X(p=v)
                        got_back = x.p
                    elif route == 'inst':
                        x = X()
                        prev = x.p
                        try:
                            x.p = v
                        finally:
                            got_back = x.p
                    elif route == 'cls':
                        prev = X.p
                        try:
                            X.p = v
                        finally:
                            got_back = X.p
                    elif route == 'update':
                        x = X()
                        prev = x.p
                        try:
                            x.param.update(p=v)
                        finally:
                            got_back = x.p
                    elif route == 'clsupdate':
                        prev = X.p
                        try:
                            X.param.update(p=v)
                        finally:
                            got_back = X.p
                    elif route == 'deser':
                        kwargs = X.param.deserialize_parameters(json.dumps({'p': v}))
                        x = X(**kwargs)
                        got_back = x.p
                    elif route in ('reconf_cls', 'reconf_inst'):
                        x = X()
                        target = X.param['p'] if route == 'reconf_cls' else x.param['p']
                        for attr, val, _, _ in rc:
                            setattr(target, attr, val)
                        prev = x.p
                        try:
                            x.p = v
                        finally:
                            got_back = x.p
                    elif route == 'inherit':
                        Y = type('Y', (X,), {'p': ptype(default=default)})
                        y = Y()
                        prev = y.p
                        try:
                            y.p = v
                        finally:
                            got_back = y.p
            except Exception as e:   # noqa
                exc = e
            accepted = exc is None
            if exp == EITHER:
                continue
            nt += 1
            key = dict(ptype=pt, route=route, value=label)
            if accepted and exp == REJECT:
                vs.append(V('accepts-invalid', '%s(%s) accepted %s via route %s although it violates the declared constraints' % (
                    pt, _cfgstr(cfg), label, route), **key))
            elif not accepted and exp == ACCEPT:
                vs.append(V('rejects-valid', '%s(%s) rejected %s via route %s (%r) although it satisfies the declared constraints' % (
                    pt, _cfgstr(cfg), label, route, exc), **key))
            elif not accepted and not isinstance(exc, (ValueError, TypeError) + ((OSError,) if pt == 'Filename' else ())):
                vs.append(V('wrong-exception', '%s(%s) rejected %s via route %s with %r, not ValueError/TypeError' % (
                    pt, _cfgstr(cfg), label, route, exc), exc=type(exc).__name__, **key))
            elif accepted:
                same = got_back is v or (route == 'deser' and got_back == v) or (pt == 'Filename' and os.path.basename(str(got_back)) == os.path.basename(str(v)))
                if not same and not _is_copy_ok(pt, route, got_back, v):
                    vs.append(V('read-back', '%s(%s) accepted %s via route %s but reads back %r' % (pt, _cfgstr(cfg), label, route, got_back), **key))
            elif route in ('inst', 'cls', 'update', 'clsupdate', 'reconf_cls', 'reconf_inst', 'inherit', 'edit_const'):
                if got_back is not prev and not (pt == 'Filename' and got_back == prev):
                    vs.append(V('rejected-but-changed', '%s(%s) rejected %s via route %s but the value changed from %r to %r' % (
                        pt, _cfgstr(cfg), label, route, prev, got_back), **key))
        r = Result(vs[:60], nontrivial=nt > 0, outcome='%s/%s' % (pt, route), hits=hits)
        r['n'] = n
        r['nt_extra'] = max(0, nt - 1)
        return r


def _is_copy_ok(pt, route, got, v):
    return False


def _cfgstr(cfg):
    return ', '.join('%s=%r' % (k, v) for k, v in cfg.items() if k != 'ptype')


HARNESS = C01()
