"""C08 — a linked parameter mirrors its reference until it is overridden.

Explicit-state BFS over link / relink / override / source-update / update-context histories on real objects, against a
reference model of live links evaluated by the model's own resolver over the model's source values."""
from mc.engine import Harness, Result, V
from mc.heapfp import try_fingerprint
from mc.world import reset_globals

# reference descriptors (pure data).  Sources S1, S2 have parameters v, w; R is an rx root.
REFS = {
    'S1.v': ['param', 'S1', 'v'],
    'S1.w': ['param', 'S1', 'w'],
    'S2.v': ['param', 'S2', 'v'],
    'bind(S1.v)': ['bind1', 'S1', 'v'],                       # v + 100
    'bind(S1.v,S2.v)': ['bind2', ['S1', 'v'], ['S2', 'v']],     # a * 10 + b
    'S1.m': ['method', 'S1'],                                 # depends on S1.w -> w * 2
    'rx(S1.v)+1': ['rxparam', 'S1', 'v'],
    'R*3': ['rxroot'],
    '[S1.v,5]': ['list', ['param', 'S1', 'v'], 5],
    "{'k':S2.v}": ['dict', 'k', ['param', 'S2', 'v']],
    '{S1.v,5}': ['set', ['param', 'S1', 'v'], 5],
    'skipbind(S2.w)': ['skipbind', 'S2', 'w'],                # raises Skip while S2.w is odd, else w + 1000
}
SKIP = '<skip>'
PLAIN_REFS = ['S1.v', 'S1.w', 'S2.v', 'bind(S1.v)', 'bind(S1.v,S2.v)', 'S1.m', 'rx(S1.v)+1', 'R*3', 'skipbind(S2.w)']
Q_REFS = ['S1.w', 'S2.v', 'bind(S1.v,S2.v)']
NESTED_REFS = ['[S1.v,5]', "{'k':S2.v}", 'S1.v', '{S1.v,5}']


class C08(Harness):
    pid = 'C08'
    level = 'model_checking'
    kind = 'bfs'
    technique = ('explicit-state BFS over link/relink/override/source-update/update-context histories on real objects vs. a reference model of '
                 'live links with its own resolver; watcher footprint on the sources checked in every state')
    rule = ('state = (initial links, model links + source values, heap fingerprint); transition = one link, override, source update or context '
            'token; after every step each target parameter is compared with the model and every source parameter must carry a sync watcher of '
            'the target iff a live link depends on it')
    assumptions = ('reference kinds: Parameter, bind of 1/2 parameters, depends method, rx over a Parameter, rx root, list/dict containing a '
                   'Parameter (nested_refs target); integer values; synchronous references only (async ones are C10)',)

    def bounds(self, tier):
        return {'depth': '3 (2 for configurations with two initial links)' if tier == 'quick' else '4 (3)', 'configs': len(self.configs(tier))}

    def configs(self, tier):
        out = []
        for init in ([], [['p', 'S1.v']], [['p', 'bind(S1.v,S2.v)'], ['q', 'S1.w']], [['p', 'S1.m'], ['q', 'S1.v']], [['p', 'R*3']],
                     [['n', '[S1.v,5]']], [['n', "{'k':S2.v}"], ['p', 'S1.v']], [['p', 'rx(S1.v)+1'], ['q', 'S2.v']]):
            out.append({'init': init, 'wide': tier == 'thorough'})
        out.append({'init': [['p', 'S1.v'], ['q', 'S2.v']], 'cascade': True})
        out.append({'init': [['p', 'skipbind(S2.w)'], ['q', 'S1.w']]})
        out.append({'init': [['b', 'S1.v']], 'bslice': True})
        out.append({'init': [], 'bslice': True})
        # a target Parameter that is not copied per instance (links are installed on the instance all the same)
        out.append({'init': [], 'shared_q': True})
        out.append({'init': [['q', 'S1.w']], 'shared_q': True})
        return out

    def depth(self, tier, cfg):
        deep = cfg.get('bslice') or cfg.get('cascade') or len(cfg['init']) <= 1
        if tier == 'quick':
            return 3 if deep else 2
        return 4 if deep else 3

    # ------------------------------------------------------------------ world
    def fresh(self, cfg):
        import param
        reset_globals()

        class Src(param.Parameterized):
            v = param.Parameter(default=0)
            w = param.Parameter(default=0)

            @param.depends('w')
            def m(self):
                return self.w * 2

        class Tgt(param.Parameterized):
            p = param.Parameter(default=-1, allow_refs=True)
            q = param.Parameter(default=-1, allow_refs=True, **({'per_instance': False} if cfg.get('shared_q') else {}))
            n = param.Parameter(default=-1, allow_refs=True, nested_refs=True)
            b = param.Number(default=5, bounds=(0, 100), allow_refs=True)

        S1, S2 = Src(v=1, w=2), Src(v=3, w=4)
        R = param.rx(7)
        w = dict(param=param, S1=S1, S2=S2, R=R, Src=Src, Tgt=Tgt, stack=[], cfg=cfg)
        model = {'src': {'S1': {'v': 1, 'w': 2}, 'S2': {'v': 3, 'w': 4}, 'R': 7}, 'link': {'p': None, 'q': None, 'n': None, 'b': None},
                 'plain': {'p': -1, 'q': -1, 'n': -1, 'b': 5}, 'ctx': [], 'stale': [], 'held': {'p': -1, 'q': -1, 'n': -1, 'b': 5}}
        kw = {}
        for tp, rn in cfg['init']:
            kw[tp] = self.mkref(w, REFS[rn])
            model['link'][tp] = rn
        w['T'] = Tgt(**kw)
        if cfg.get('cascade'):
            # a user watcher on p that overrides q with a plain value (possibly while p is being synced from its source)
            T = w['T']
            T.param.watch(lambda e: setattr(T, 'q', 77), 'p')
        self.settle(cfg, model, first=True)
        return w, model

    def settle(self, cfg, model, first=False):
        """bring model['held'] up to date: a live link installs its resolved value unless the reference skips or the value is invalid
        for the target; with the cascade watcher a change of p overrides q with the plain value 77"""
        for _ in range(3):
            before_p = model['held']['p']
            for tp in ('p', 'q', 'n', 'b'):
                rn = model['link'][tp]
                if rn is None:
                    model['held'][tp] = model['plain'][tp]
                else:
                    v = self.evalref(model, REFS[rn])
                    if v is SKIP or (tp == 'b' and not (0 <= v <= 100)):
                        continue
                    model['held'][tp] = v
            if cfg.get('cascade') and not first and model['held']['p'] != before_p:
                model['link']['q'] = None
                model['plain']['q'] = 77
                model['held']['q'] = 77
                continue
            break

    def mkref(self, w, d):
        param = w['param']
        k = d[0]
        if k == 'param':
            return w[d[1]].param[d[2]]
        if k == 'bind1':
            return param.bind(lambda a: a + 100, w[d[1]].param[d[2]])
        if k == 'bind2':
            return param.bind(lambda a, b: a * 10 + b, w[d[1][0]].param[d[1][1]], w[d[2][0]].param[d[2][1]])
        if k == 'skipbind':
            def f(x):
                if x % 2:
                    raise param.Skip()
                return x + 1000
            return param.bind(f, w[d[1]].param[d[2]])
        if k == 'method':
            return w[d[1]].m
        if k == 'rxparam':
            return w[d[1]].param[d[2]].rx() + 1
        if k == 'rxroot':
            return w['R'] * 3
        if k == 'list':
            return [self.mkref(w, x) if isinstance(x, list) else x for x in d[1:]]
        if k == 'set':
            return {self.mkref(w, x) if isinstance(x, list) else x for x in d[1:]}
        if k == 'dict':
            return {d[1]: self.mkref(w, d[2])}
        raise AssertionError(d)

    def evalref(self, model, d):
        s = model['src']
        k = d[0]
        if k == 'param':
            return s[d[1]][d[2]]
        if k == 'bind1':
            return s[d[1]][d[2]] + 100
        if k == 'bind2':
            return s[d[1][0]][d[1][1]] * 10 + s[d[2][0]][d[2][1]]
        if k == 'skipbind':
            x = s[d[1]][d[2]]
            return SKIP if x % 2 else x + 1000
        if k == 'method':
            return s[d[1]]['w'] * 2
        if k == 'rxparam':
            return s[d[1]][d[2]] + 1
        if k == 'rxroot':
            return s['R'] * 3
        if k == 'list':
            return [self.evalref(model, x) if isinstance(x, list) else x for x in d[1:]]
        if k == 'set':
            return {self.evalref(model, x) if isinstance(x, list) else x for x in d[1:]}
        if k == 'dict':
            return {d[1]: self.evalref(model, d[2])}

    def deps_of(self, d):
        k = d[0]
        if k in ('param', 'bind1', 'rxparam', 'skipbind'):
            return {(d[1], d[2])}
        if k == 'bind2':
            return {(d[1][0], d[1][1]), (d[2][0], d[2][1])}
        if k == 'method':
            return {(d[1], 'w')}
        if k == 'rxroot':
            return set()
        if k in ('list', 'set'):
            out = set()
            for x in d[1:]:
                if isinstance(x, list):
                    out |= self.deps_of(x)
            return out
        if k == 'dict':
            return self.deps_of(d[2])

    def enabled(self, cfg, model):
        ops = []
        if cfg.get('bslice'):
            s = model['src']
            ops = [['link', 'b', 'S1.v'], ['link', 'b', 'S2.v'], ['plain', 'b', 50], ['src', 'S1', 'v', s['S1']['v'] + 1 if s['S1']['v'] >= 0 else 9],
                   ['src', 'S1', 'v', -5], ['src', 'S2', 'v', s['S2']['v'] + 1 if s['S2']['v'] < 400 else 4], ['src', 'S2', 'v', 500]]
            ops = [o for o in ops if not (o[0] == 'link' and model['link'][o[1]] == o[2])]
            if len(model['ctx']) < 1:
                ops += [['open_update', 'b', 60], ['open_update_pos', 'b', 62]]
            else:
                saved = model['ctx'][-1][1]
                if saved is None or 0 <= self.evalref(model, REFS[saved]) <= 100:
                    ops.append(['close'])      # (restoring a link whose current value is invalid for the target is left out)
            return ops
        for tp in ('p', 'q'):
            for rn in (PLAIN_REFS if (tp == 'p' or cfg.get('wide')) else Q_REFS):
                if model['link'][tp] != rn:
                    ops.append(['link', tp, rn])
            ops.append(['plain', tp, 50])
        for rn in NESTED_REFS:
            if model['link']['n'] != rn:
                ops.append(['link', 'n', rn])
        ops.append(['plain', 'n', 51])
        s = model['src']
        ops += [['src', 'S1', 'v', s['S1']['v'] + 1], ['src', 'S1', 'w', s['S1']['w'] + 1], ['src', 'S2', 'v', s['S2']['v'] + 1],
                ['root', s['R'] + 1], ['src', 'S1', 'v', s['S1']['v']], ['src', 'S2', 'w', s['S2']['w'] + 1]]
        if len(model['ctx']) < 1:
            ops += [['open_update', 'p', 60], ['open_update', 'q', 61], ['open_update_pos', 'p', 62], ['open_update_mix', 63, 64]]
        else:
            ops.append(['close'])
        ops.append(['update2', 70, 71])
        ops.append(['srcboth', 'S1', s['S1']['v'] + 1, s['S1']['w'] + 1])      # two parameters of one source changed in one batch
        ops += [['trigger', 'p'], ['trigger', 'q']]          # re-announcing a linked value is not an override: the link stays
        return ops

    def apply(self, w, model, op):
        T = w['T']
        k = op[0]
        if k == 'link':
            if op[1] == 'b' and not (0 <= self.evalref(model, REFS[op[2]]) <= 100):
                # a reference whose current value is invalid for the target must be rejected and change nothing
                try:
                    setattr(T, op[1], self.mkref(w, REFS[op[2]]))
                except ValueError:
                    return
                raise AssertionError('reference with an invalid current value was accepted')
            setattr(T, op[1], self.mkref(w, REFS[op[2]]))
            model['link'][op[1]] = op[2]
        elif k == 'plain':
            setattr(T, op[1], op[2])
            model['link'][op[1]] = None
            model['plain'][op[1]] = op[2]
        elif k == 'src':
            model['src'][op[1]][op[2]] = op[3]
            invalid = [tp for tp, rn in model['link'].items() if tp == 'b' and rn is not None
                       and (op[1], op[2]) in self.deps_of(REFS[rn]) and not (0 <= self.evalref(model, REFS[rn]) <= 100)]
            try:
                setattr(w[op[1]], op[2], op[3])
            except ValueError:
                if not invalid:
                    raise
            # a linked value that is invalid for the target is not installed; what the target holds meanwhile is not specified
            model['stale'] = invalid
        elif k == 'trigger':
            T.param.trigger(op[1])
            if w['cfg'].get('cascade') and op[1] == 'p':
                # the user watcher of p runs and overrides q with its plain value
                model['link']['q'] = None
                model['plain']['q'] = 77
        elif k == 'srcboth':
            model['src'][op[1]]['v'] = op[2]
            model['src'][op[1]]['w'] = op[3]
            w[op[1]].param.update(v=op[2], w=op[3])
        elif k == 'root':
            w['R'].rx.value = op[1]
            model['src']['R'] = op[1]
        elif k == 'open_update_mix':
            cm = T.param.update({'p': op[1]}, q=op[2])       # positional mapping and keyword in one call
            cm.__enter__()
            w['stack'].append(cm)
            for tp, v in (('p', op[1]), ('q', op[2])):
                model['ctx'].append((tp, model['link'][tp], model['plain'][tp]))
                model['link'][tp] = None
                model['plain'][tp] = v
        elif k in ('open_update', 'open_update_pos'):
            cm = T.param.update(**{op[1]: op[2]}) if k == 'open_update' else T.param.update({op[1]: op[2]})
            cm.__enter__()
            w['stack'].append(cm)
            model['ctx'].append((op[1], model['link'][op[1]], model['plain'][op[1]]))
            model['link'][op[1]] = None
            model['plain'][op[1]] = op[2]
        elif k == 'close':
            w['stack'].pop().__exit__(None, None, None)
            frames = [model['ctx'].pop()]
            if model['ctx'] and len(w['stack']) == 0:
                frames.append(model['ctx'].pop())        # an update over two names is one context
            for tp, link, plain in frames:
                model['link'][tp] = link
                if link is None:
                    model['plain'][tp] = plain
                else:
                    model['plain'][tp] = plain
        elif k == 'update2':
            T.param.update(p=op[1], q=op[2])
            for tp, v in (('p', op[1]), ('q', op[2])):
                model['link'][tp] = None
                model['plain'][tp] = v

    def check(self, w, model, history, op):
        vs = []
        T = w['T']
        key = dict(op=op[0] if op else 'init')
        for tp in ('p', 'q', 'n', 'b'):
            rn = model['link'][tp]
            got = getattr(T, tp)
            if tp == 'b' and not (0 <= got <= 100):
                vs.append(V('invalid-value-installed', 'history %r: b holds %r outside its bounds' % (history, got), **key))
            if rn is not None:
                exp = self.evalref(model, REFS[rn])
                if tp == 'b' and not (0 <= exp <= 100):
                    continue
                if exp is SKIP:
                    exp = model['held'][tp]        # a skipping reference leaves what the parameter held
                if got != exp or type(got) is not type(exp):
                    vs.append(V('linked-value', 'history %r: %s is linked to %s whose resolved value is %r, but holds %r' % (history, tp, rn, exp, got),
                                ref=REFS[rn][0], target=tp, **key))
            else:
                exp = model['plain'][tp]
                if got != exp:
                    vs.append(V('unlinked-value', 'history %r: %s is not linked and was last assigned %r, but holds %r' % (history, tp, exp, got),
                                target=tp, **key))
        # watcher footprint on the sources
        need = set()
        for tp, rn in model['link'].items():
            if rn is not None:
                need |= self.deps_of(REFS[rn])
        for sname in ('S1', 'S2'):
            S = w[sname]
            for pn in ('v', 'w'):
                ws = S._param__private.watchers.get(pn, {}).get('value', [])
                mine = [x for x in ws if getattr(getattr(x.fn, '__self__', None), 'self', None) is T]
                if (sname, pn) in need and not mine:
                    vs.append(V('sync-watcher-missing', 'history %r: a live link depends on %s.%s but the target has no sync watcher there' % (history, sname, pn), **key))
                if (sname, pn) not in need and mine:
                    vs.append(V('stale-sync-watcher', 'history %r: no live link depends on %s.%s but the target still has %d sync watcher(s) there' % (
                        history, sname, pn, len(mine)), **key))
                if len(mine) > 1:
                    vs.append(V('duplicate-sync-watcher', 'history %r: %d sync watchers on %s.%s' % (history, len(mine), sname, pn), **key))
        return vs

    def execute(self, cfg, history):
        w, model = self.fresh(cfg)
        vs = []
        hits = {}
        if not history:
            vs = self.check(w, model, history, None)
        for i, op in enumerate(history):
            last = i == len(history) - 1
            try:
                self.apply(w, model, op)
                self.settle(cfg, model)
            except Exception as e:
                if last:
                    vs.append(V('op-raises', 'history %r: %r raised %r' % (history, op, e), op=op[0], exc=type(e).__name__))
                break
            if last:
                hits[op[0]] = 1
                vs = self.check(w, model, history, op)
        fp = None
        if not vs:
            fp = try_fingerprint([('T', w['T']), ('S1', w['S1']), ('S2', w['S2']), ('R', w['R'])], extra=repr(model))
        nxt = [] if vs else self.enabled(cfg, model)
        return Result(vs[:4], fp=fp, next_ops=nxt, outcome=repr((model['link'], model['src'])), hits=hits)


HARNESS = C08()
