"""Importable (picklable) classes for C17."""
import collections

import param


class Leaf(param.Parameterized):
    x = param.Number(default=1)
    tags = param.List(default=['t'])


class Top(param.Parameterized):
    v = param.Number(default=1, bounds=(0, 10))
    w = param.Number(default=2)
    l = param.List(default=[1, 2])
    sub = param.ClassSelector(class_=Leaf, default=None, allow_None=True)
    sel = param.Selector(objects={'lo': 1, 'hi': 2})
    osel = param.Selector(objects=collections.OrderedDict([('lo', 1), ('hi', 2)]))

    def __init__(self, **params):
        super().__init__(**params)
        self.calls = []
        self.extra = [0]

    @param.depends('v', 'w', watch=True)
    def on_vw(self):
        self.calls.append(('on_vw', self.v, self.w))

    @param.depends('l', watch=True)
    def on_l(self):
        self.calls.append(('on_l', list(self.l)))

    def user_cb(self, *events):
        self.calls.append(('user_cb', events[0].new))

    def user_cb2(self, *events):
        self.calls.append(('user_cb2', events[0].new))

    def user_cb3(self, *events):
        self.calls.append(('user_cb3', tuple(sorted(e.name for e in events))))


class Slotted(Top):
    """declares its own __slots__ (ordinary attribute stored in a slot)"""
    __slots__ = ['slot_attr']

    def __init__(self, **params):
        super().__init__(**params)
        self.slot_attr = ['s']


class TopSub(Top):
    """adds a dependency on a parameter of the attached sub-object"""

    @param.depends('sub.x', watch=True)
    def on_subx(self):
        self.calls.append(('on_subx', self.sub.x if self.sub is not None else None))


def reset_classes():
    """module-level classes are shared by all executions of a worker: put back every piece of class-level mutable state
    (a defect that leaks instance changes into the class must not poison later executions)"""
    for cls in (Top, Slotted, TopSub):
        if 'sel' in cls.__dict__ or cls is Top:
            Top.param['sel'].objects = {'lo': 1, 'hi': 2}
            Top.param['osel'].objects = collections.OrderedDict([('lo', 1), ('hi', 2)])
    Top.param['l'].default = [1, 2]
    Top.param['v'].bounds = (0, 10)
    Leaf.param['tags'].default = ['t']
