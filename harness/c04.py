"""C04 — batched dispatch defers, coalesces and delivers once on outermost exit.

Same world and reference dispatcher as C03; the alphabet adds the structural tokens
open batch / open discard / open update-context / close, update, trigger and Event parameters."""
from mc.engine import Harness, Result, V
from mc.heapfp import try_fingerprint
from harness.dispatch_world import World
from harness.c03 import W


class C04(Harness):
    pid = 'C04'
    level = 'model_checking'
    kind = 'bfs'
    technique = ('explicit-state BFS over token strings (assignments, update, trigger, Event sets, nested batch/discard/update contexts) '
                 'on the real dispatcher; callback traces checked for inclusion in the reference dispatcher')
    rule = ('state = (watcher configuration, model values + context stack + pending events, heap fingerprint); transition = one token '
            'executed on a fresh instance after replaying the history; contexts still open at the end of a history are closed innermost-first '
            'and the flush is checked too')
    assumptions = ('integer value domain {0,1,2}; nesting <= 3; `old` of a coalesced event and the event type of a trigger issued inside an '
                   'open batch are not compared (the statement fixes only the final value / leaves the deferred type open)',)
    MAXNEST = 3

    def bounds(self, tier):
        return {'depth': 4 if tier == 'quick' else 6, 'nesting': self.MAXNEST, 'configs': len(self.configs(tier))}

    def configs(self, tier):
        cs = [
            ('A', [W(0, ['a'], onlychanged=True), W(1, ['a', 'b'], onlychanged=False)], True),
            ('B', [W(0, ['a', 'b'], onlychanged=True, precedence=1), W(1, ['b'], onlychanged=False), W(2, ['e'], onlychanged=True)], True),
            ('C', [W(0, ['a'], onlychanged=True, mode='kwargs'), W(1, ['a', 'b'], onlychanged=True), W(2, ['a'], onlychanged=False, precedence=1)], True),
            ('D', [W(0, ['a', 'e'], onlychanged=False), W(1, ['b'], onlychanged=True, queued=True, precedence=1)], True),
            ('E', [W(0, ['a'], onlychanged=True, action=['set', 'b', 1]), W(1, ['b'], onlychanged=False)], False),
            ('F', [W(0, ['a'], onlychanged=True, queued=True, action=['set', 'b', 2]), W(1, ['a', 'b'], onlychanged=True, precedence=1)], False),
        ]
        return [{'name': n, 'specs': s, 'trigger': t} for n, s, t in cs]

    def depth(self, tier, cfg):
        return self.bounds(tier)['depth']

    def enabled(self, cfg, world):
        ops = [['set', 'a', 1], ['set', 'a', 2], ['set', 'b', 1], ['set', 'b', 0],
               ['update', [['a', 1], ['b', 1]]], ['update', [['b', 2], ['a', 0]]]]
        if cfg['trigger']:
            ops += [['set', 'e', 3], ['trigger', ['a']], ['trigger', ['e']], ['trigger', ['b', 'a']]]
        if len(world.stack) < self.MAXNEST:
            ops += [['open', 'batch'], ['open', 'discard'], ['open_update', [['a', 2]]]]
        if world.stack:
            ops.append(['close'])
        return ops

    def execute(self, cfg, history):
        world = World(cfg['specs'], event=True)
        vs = []
        for i, op in enumerate(history):
            last = i == len(history) - 1
            r = world.step(op, check=True)
            if r:
                vs = r if last else [V('prefix-diverged', 'prefix step %d diverged: %r' % (i, r), op=op[0])]
                break
        nxt = [] if vs else self.enabled(cfg, world)
        del world.log[:]
        fp = try_fingerprint([('cls', world.cls), ('o', world.o)], extra=[world.model.canon(), [k for k, _ in world.stack]]) if not vs else None
        outcome = repr(world.model.canon())
        if not vs and world.stack:
            # terminal check of this history: close everything innermost-first (the flush must be licensed too)
            r = world.close_all()
            if r:
                vs = [V(x['clause'], 'at final close: ' + x['detail'], final=True, **x['key']) for x in r]
                nxt = []
        return Result(vs, fp=fp, next_ops=nxt, outcome=outcome, hits=dict(world.model.hits))


HARNESS = C04()
