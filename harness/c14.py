"""C14 — constant and read-only parameters cannot be rebound after construction.

Explicit-state BFS over instance sets (new and identical object), update, class-level sets on the declaring class and a subclass,
nested / failing edit_constant blocks and per-instance Parameter creation, against a model of the held identities.

Slices (one BFS each, same oracle):
  base   B(A) with ordinary (per-instance) Parameters
  pif    the constants are declared per_instance=False
  nip    the instance class is decorated with no_instance_params
  refs   a constant with allow_refs=True and two reference sources: a rejected reference assignment must not install (or replace) a link
  watch  assignments attempted from inside watcher / depends(watch=True) callbacks, started by a normal set or by param.trigger"""
from mc.engine import Harness, Result, V
from mc.heapfp import try_fingerprint
from mc.world import reset_globals


class Boom(Exception):
    pass


CONSTS = ('c', 'cn', 'cr')


class C14(Harness):
    pid = 'C14'
    level = 'model_checking'
    kind = 'bfs'
    technique = ('explicit-state BFS over assignment / update / class-level set / edit_constant (nested, failing) / reference / trigger histories on real '
                 'objects vs. a model of the identity held by each constant parameter')
    rule = ('state = (model identities + open edit blocks + installed reference links, heap fingerprint of classes and instances); transition = one '
            'operation; after every step the object held by every constant / read-only parameter on both instances and the class defaults are compared '
            'by identity with the model, assignments attempted inside watcher callbacks are judged like direct ones, and once no edit block is open every '
            'constant flag on class and instance Parameter objects must be True')
    assumptions = ('two instances of a subclass B(A): one built without, one with constructor arguments; assignments to a constant of the *other* '
                   'instance while an edit_constant block is open on one instance follow the implementation (the statement does not say whose block counts)',
                   'a reference link that was installed legitimately (constructor, or inside the own edit_constant block) may propagate source changes '
                   '(param does that under its own edit_constant); a link whose installation was rejected must never propagate')
    MAXNEST = 2

    def configs(self, tier):
        out = [{'slice': s} for s in ('base', 'pif', 'nip', 'refs', 'watch', 'named')]
        # a watcher of the `constant` attribute itself that raises at its k-th invocation (while a block unlocks or re-locks the Parameters)
        out += [{'slice': 'slotboom', 'boom_at': b} for b in ([1], [2], [3], [1, 2], [2, 4])]
        return out

    def bounds(self, tier):
        return {'depth': 4 if tier == 'quick' else 5, 'nesting': self.MAXNEST, 'slices': 6}

    def depth(self, tier, cfg):
        return 4 if tier == 'quick' else 5

    def fresh(self, sl, cfg=None):
        cfg = cfg or {}
        import param
        reset_globals()
        objs = {'c0': [0], 'c9': [9], 'n1': [1], 'n2': [2], 'n3': [3]}
        hook = {}                       # the only thing the callbacks close over (cleared before fingerprinting)
        w = {'param': param, 'objs': objs, 'stack': [], 'attempts': [], 'hook': hook}
        kw = {'per_instance': False} if sl == 'pif' else {}
        ns = {'c': param.Parameter(default=objs['c0'], constant=True, **kw), 'r': param.Parameter(default=7, readonly=True, **kw),
              'p': param.Parameter(default=1), 'cn': param.Parameter(default=None, constant=True, **kw)}
        if sl == 'named':
            ns['name'] = param.String(default='foo')          # the class overrides the default of `name` (still constant): no name is generated
        if sl == 'refs':
            ns['cr'] = param.Parameter(default=None, constant=True, allow_refs=True)
            ns['rr'] = param.Parameter(default=0, readonly=True, allow_refs=True)
            Src = type('Src', (param.Parameterized,), {'v': param.Parameter(default=None)})
            w['S'] = Src(v=objs['n1'])
            w['T'] = Src(v=objs['c9'])
        if sl == 'watch':
            def _on_p(self):
                hook['attempt'](self, 'c', 'n1', 'set')
            ns['_on_p'] = param.depends('p', watch=True)(_on_p)
        A = type('A', (param.Parameterized,), ns)
        B = type('B', (A,), {})
        if sl == 'nip':
            param.parameterized.no_instance_params(B)
        i0 = B()
        if sl == 'refs':
            i1 = B(c=objs['c9'], name='nm', cr=w['S'].param.v)
        else:
            i1 = B(c=objs['c9'], name='nm')
        w.update(A=A, B=B, i=[i0, i1])
        model = {'held': [{'c': 'c0', 'r': 7, 'name': i0.name, 'cn': None}, {'c': 'c9', 'r': 7, 'name': 'nm', 'cn': None}], 'cls': {'A': 'c0', 'B': None}, 'edit': []}
        if sl == 'refs':
            model['held'][0]['cr'] = None
            model['held'][1]['cr'] = 'n1'
            model['held'][0]['rr'] = model['held'][1]['rr'] = 0
            model['link'] = [None, 'S']
            model['src'] = {'S': 'n1', 'T': 'c9'}
        if sl == 'slotboom':
            calls = {'n': 0}

            def slot_watcher(event):
                calls['n'] += 1
                if calls['n'] in hook['boom_at']:
                    raise Boom('watcher of the constant attribute')
            hook['boom_at'] = list(cfg.get('boom_at', []))
            i0.param.watch(slot_watcher, ['c', 'cn'], what='constant')
        if sl in ('watch', 'refs'):
            def attempt(inst, n, tok, how):
                i = 0 if inst is w['i'][0] else 1
                try:
                    if how == 'set':
                        setattr(inst, n, objs[tok])
                    else:
                        inst.param.update(**{n: objs[tok]})
                    w['attempts'].append((i, n, tok, None))
                except Exception as e:
                    w['attempts'].append((i, n, tok, e))
            hook['attempt'] = attempt
            for inst in (i0, i1):
                if sl == 'watch':
                    inst.param.watch(lambda ev, inst=inst: hook['attempt'](inst, 'cn', 'n2', 'update'), 'c')
                else:
                    # a watcher of the linked constant tries to rebind another constant while the link delivers a new value
                    inst.param.watch(lambda ev, inst=inst: hook['attempt'](inst, 'c', 'n2', 'set'), 'cr')
        return w, model

    def enabled(self, model, sl='base'):
        ops = []
        for i in (0, 1):
            if sl == 'refs':
                ops += [['iset', i, 'cr', 'refS'], ['iset', i, 'cr', 'refT'], ['iset', i, 'cr', 'n1'], ['iset', i, 'cr', 'same'], ['iupdate', i, 'cr', 'refT'],
                        ['iset', i, 'rr', 'refS'], ['iset', i, 'cr', 'refskip']]
            elif sl == 'watch':
                ops += [['pset', i], ['trigger', i, 'p'], ['trigger', i, 'c'], ['iset', i, 'c', 'n3']]
            elif sl == 'slotboom':
                ops += [['iset', i, 'c', 'n1'], ['iset', i, 'cn', 'n1']]
            else:
                ops += [['iset', i, 'c', 'n1'], ['iset', i, 'c', 'same'], ['iset', i, 'r', 8], ['iset', i, 'name', 'zz'], ['iupdate', i, 'c', 'n2'], ['touch', i, 'c'],
                        ['iset', i, 'cn', 'n1']]
            if len(model['edit']) < self.MAXNEST:
                ops.append(['open_edit', i])
        if sl == 'base' and len(model['edit']) < self.MAXNEST:
            ops.append(['open_edit', 'B'])          # class-level block
        if sl == 'base' and len(model['held']) < 3:
            ops.append(['new'])                     # a third instance, possibly built while a block is open: its constants are pinned all the same
        if sl == 'named':
            ops += [['cset', 'A', 'name', 'zn'], ['cset', 'B', 'name', 'zm']]
        if sl == 'refs':
            ops += [['src', 'S', 'n2'], ['src', 'S', 'n3'], ['src', 'T', 'n2'], ['src', 'T', 'n3']]
        elif sl in ('watch', 'slotboom'):
            pass
        else:
            ops += [['cset', 'A', 'c', 'n3'], ['cset', 'B', 'c', 'n3'], ['cset', 'A', 'r', 9], ['cset', 'B', 'r', 9], ['cset', 'A', 'cn', 'n2'], ['cset', 'B', 'cn', 'n2']]
        if model['edit']:
            ops += [['close'], ['raise']]
        if len(model['edit']) > 1:
            ops.append(['closeall'])          # leave every open block, innermost first
        return ops

    def check_library_objects(self, param):
        """the library's own Parameterized classes that change one of their constants by an official method (param.Time: time_type through
        __call__): afterwards the constant is constant again, on the class and on the instance"""
        import fractions
        vs = []
        t = param.Time()
        for prepare in ('untouched', 'own-parameter'):
            t = param.Time()
            if prepare == 'own-parameter':
                t.param['time_type']          # the instance has its own Parameter copy before the method is used
            t(5, time_type=float)
            try:
                t.time_type = fractions.Fraction
                vs.append(V('rebound-outside-edit', 'param.Time: after t(5, time_type=float) a plain t.time_type = Fraction was accepted (%s)' % prepare,
                            op='Time.__call__', name='time_type', value='new', slice='base'))
            except TypeError:
                pass
            for label, pobj in (('class', param.Time.param['time_type']), ('instance', t.param['time_type'])):
                if not pobj.constant:
                    vs.append(V('constant-flag', 'param.Time: %s-level Parameter time_type is not constant after t(5, time_type=float) (%s)' % (label, prepare),
                                level=label, name='time_type', after='Time.__call__'))
        return vs

    def execute(self, cfg, history):
        sl = cfg.get('slice', 'base')
        w, model = self.fresh(sl, cfg)
        param = w['param']
        objs = w['objs']
        vs = []
        hits = {}

        def tokof(o):
            if o is None:
                return None
            for k, v in objs.items():
                if v is o:
                    return k
            return repr(o)
        if not history and sl == 'base':
            vs += self.check_library_objects(param)
        for step, op in enumerate(history):
            last = step == len(history) - 1
            k = op[0]
            exc = None
            expect_exc = None          # None: must succeed; 'TypeError': must raise; 'EITHER'
            ctx = 'slice %s history %r' % (sl, history)
            del w['attempts'][:]
            may_change = {}            # (i, name) -> set of tokens the value may legitimately move to in this step
            try:
                if k in ('iset', 'iupdate'):
                    i, n, v = op[1], op[2], op[3]
                    inst = w['i'][i]
                    mine_open = i in model['edit']
                    other_open = bool(model['edit']) and not mine_open
                    isref = isinstance(v, str) and v.startswith('ref')
                    if v == 'refskip':
                        # a reference that yields no value (Skip): outside the own block it is refused like any other reference
                        def skipper(x):
                            raise param.Skip()
                        val = param.bind(skipper, w['S'].param.v)
                        expect_exc = None if mine_open else ('EITHER' if other_open else 'TypeError')
                    elif n == 'rr':
                        val, expect_exc = w['S'].param.v, 'TypeError'        # read-only: never, not even inside edit_constant
                    elif n in CONSTS:
                        target = model['src'][v[3]] if isref else v
                        same = v == 'same' or model['held'][i][n] == target
                        if isref:
                            val = w[v[3]].param.v
                            # installing a link modifies the parameter whatever the reference resolves to (also to the held object)
                            expect_exc = None if mine_open else ('EITHER' if other_open else 'TypeError')
                        else:
                            if same:
                                v = 'same'          # the identical object is already held
                            val = getattr(inst, n) if v == 'same' else objs[v]
                            if v == 'same' or mine_open:
                                expect_exc = None
                            elif other_open:
                                expect_exc = 'EITHER'
                            else:
                                expect_exc = 'TypeError'
                    elif n == 'r':
                        val, expect_exc = v, 'TypeError'
                    else:
                        val = v
                        expect_exc = None if mine_open else ('EITHER' if other_open else 'TypeError')
                    if k == 'iset':
                        setattr(inst, n, val)
                    else:
                        inst.param.update(**{n: val})
                elif k == 'new':
                    inst = w['B']()
                    w['i'].append(inst)
                    model['held'].append({'c': model['cls']['B'] or model['cls']['A'], 'r': 7, 'name': inst.name, 'cn': model['cls'].get('B.cn') or model['cls'].get('A.cn')})
                elif k == 'touch':
                    w['i'][op[1]].param[op[2]]
                elif k == 'cset':
                    expect_exc = 'TypeError' if op[2] == 'r' else None
                    setattr(w[op[1]], op[2], objs[op[3]] if op[2] in ('c', 'cn') else op[3])
                elif k == 'open_edit':
                    cm = param.parameterized.edit_constant(w[op[1]] if isinstance(op[1], str) else w['i'][op[1]])
                    cm.__enter__()
                    w['stack'].append(cm)
                elif k == 'close':
                    w['stack'].pop().__exit__(None, None, None)
                elif k == 'raise':
                    e = Boom('body')
                    w['stack'].pop().__exit__(Boom, e, None)
                elif k == 'closeall':
                    # like leaving nested with-blocks: an exception raised by an inner exit travels through the outer ones
                    err = None
                    while w['stack']:
                        try:
                            w['stack'].pop().__exit__(type(err) if err else None, err, None)
                        except BaseException as e:
                            err = e
                    if err is not None:
                        raise err
                elif k == 'src':
                    old = model['src'][op[1]]
                    model['src'][op[1]] = op[2]
                    for i in (0, 1):
                        if model['link'][i] == op[1]:
                            # a link installed at construction or inside the own block, and never legitimately replaced since: it delivers
                            # (a rejected assignment in between has had no effect on it)
                            model['held'][i]['cr'] = op[2]
                        elif model['link'][i] == '?':
                            may_change[(i, 'cr')] = {op[2]}
                    setattr(w[op[1]], 'v', objs[op[2]])
                elif k == 'pset':
                    inst = w['i'][op[1]]
                    inst.p = 3 - inst.p
                elif k == 'trigger':
                    w['i'][op[1]].param.trigger(op[2])
            except Exception as e:
                exc = e
            # ---- model update + verdict for this step
            if k in ('iset', 'iupdate'):
                i, n = op[1], op[2]
                if exc is None and v == 'refskip':
                    model['link'][i] = '?'          # the previous link is replaced by one that has not delivered anything yet
                elif exc is None and n == 'rr':
                    pass
                elif exc is None:
                    if n in CONSTS:
                        if isref:
                            model['held'][i][n] = target
                            model['link'][i] = v[3] if mine_open else '?'
                        elif v != 'same':
                            model['held'][i][n] = v
                            if n == 'cr':
                                model['link'][i] = None
                        elif n == 'cr' and model['link'][i] is not None:
                            model['link'][i] = '?'
                    if n == 'name':
                        model['held'][i]['name'] = v
                    if n == 'r':
                        model['held'][i]['r'] = v
                hits['accepted' if exc is None else 'rejected'] = 1
                if last:
                    key = dict(op=k, name=n, value='ref' if isref else ('same' if v == 'same' else 'new'), inside_own_edit=i in model['edit'],
                               other_edit_open=bool(model['edit']) and i not in model['edit'])
                    if sl != 'base':
                        key['slice'] = sl
                    if expect_exc == 'TypeError' and exc is None:
                        vs.append(V('rebound-outside-edit', '%s: %s.%s = %r was accepted outside edit_constant' % (ctx, 'i%d' % i, n, v), **key))
                    elif expect_exc == 'TypeError' and not isinstance(exc, TypeError):
                        vs.append(V('wrong-exception', '%s: raised %r, not TypeError' % (ctx, exc), **key))
                    elif expect_exc is None and exc is not None:
                        vs.append(V('legitimate-set-rejected', '%s: %r raised %r' % (ctx, op, exc), **key))
            elif k == 'cset':
                if exc is None and op[2] == 'c':
                    model['cls'][op[1]] = op[3]
                if exc is None and op[2] == 'cn':
                    model['cls'][op[1] + '.cn'] = op[3]
                if last:
                    if expect_exc == 'TypeError' and not isinstance(exc, TypeError):
                        vs.append(V('readonly-class-set', '%s: class-level assignment to the read-only parameter gave %r' % (ctx, exc), cls=op[1]))
                    if expect_exc is None and exc is not None:
                        vs.append(V('legitimate-set-rejected', '%s: %r raised %r' % (ctx, op, exc), op=k, cls=op[1]))
            elif k == 'open_edit':
                if exc is None:
                    model['edit'].append(op[1])
                elif last and not (sl == 'slotboom' and isinstance(exc, Boom)):
                    vs.append(V('op-raises', '%s: entering edit_constant raised %r' % (ctx, exc), op=k, slice=sl))
            elif k == 'closeall':
                del model['edit'][:]
                if exc is not None and last and not (sl == 'slotboom' and isinstance(exc, Boom)):
                    vs.append(V('edit-exit-raises', '%s: leaving edit_constant raised %r' % (ctx, exc), op=k))
            elif k in ('close', 'raise'):
                model['edit'].pop()
                if exc is not None and last and not (sl == 'slotboom' and isinstance(exc, Boom)):
                    vs.append(V('edit-exit-raises', '%s: leaving edit_constant raised %r' % (ctx, exc), op=k))
            elif exc is not None and last:
                vs.append(V('op-raises', '%s: %r raised %r' % (ctx, op, exc), op=k, slice=sl))
            # ---- assignments attempted inside callbacks (watch slice): judged like direct ones, in the order they happened
            for (i, n, tok, e) in list(w['attempts']):
                mine_open = i in model['edit']
                other_open = bool(model['edit']) and not mine_open
                same = model['held'][i][n] == tok
                if e is None:
                    if not (same or mine_open or other_open) and last:
                        vs.append(V('rebound-outside-edit', '%s: inside a callback started by %r, i%d.%s = %s was accepted outside edit_constant' % (ctx, op, i, n, tok),
                                    op=k, name=n, value='new', via='callback', slice=sl))
                    model['held'][i][n] = tok
                else:
                    if last and (same or mine_open):
                        vs.append(V('legitimate-set-rejected', '%s: inside a callback started by %r, i%d.%s = %s raised %r' % (ctx, op, i, n, tok, e),
                                    op=k, name=n, via='callback', slice=sl))
                    elif last and not isinstance(e, TypeError):
                        vs.append(V('wrong-exception', '%s: inside a callback started by %r, i%d.%s = %s raised %r, not TypeError' % (ctx, op, i, n, tok, e),
                                    op=k, name=n, via='callback', slice=sl))
            # values that may legitimately have followed a reference source: adopt what is observed (old or new only)
            for (i, n), allowed in may_change.items():
                got = tokof(getattr(w['i'][i], n))
                if got in allowed:
                    model['held'][i][n] = got
            if not last:
                continue
            # ---- state checks
            for i, inst in enumerate(w['i']):
                for n in sorted(model['held'][i]):
                    got = getattr(inst, n)
                    exp = model['held'][i][n]
                    ok = (got is (objs[exp] if exp is not None else None)) if n in CONSTS else (got == exp)
                    if not ok:
                        key = dict(name=n, op=k)
                        if sl != 'base':
                            key['slice'] = sl
                        vs.append(V('held-object', '%s: i%d.%s holds %s, expected %s' % (ctx, i, n, tokof(got) if n in CONSTS else got, exp), **key))
            a_c = model['cls']['A']
            b_c = model['cls']['B'] or a_c
            if w['A'].c is not objs[a_c] or w['B'].c is not objs[b_c]:
                vs.append(V('class-default', '%s: class defaults A.c=%s B.c=%s, expected %s / %s' % (ctx, tokof(w['A'].c), tokof(w['B'].c), a_c, b_c), op=k))
            if w['A'].r != 7 or w['B'].r != 7:
                vs.append(V('readonly-changed', '%s: read-only class value changed' % ctx, op=k))
            if not model['edit']:
                names = ('c', 'r', 'name', 'cn', 'cr')
                for label, K in (('A', w['A']), ('B', w['B'])):
                    for n in names:
                        if n not in K.param:
                            continue
                        pobj = K.__dict__.get(n) or K.param[n]
                        if not pobj.constant:
                            vs.append(V('constant-flag', '%s: %s.%s.constant is False with no edit_constant block open' % (ctx, label, n), level='class', name=n, after=k))
                for i, inst in enumerate(w['i']):
                    for n, pobj in inst._param__private.params.items():
                        if n in names and not pobj.constant:
                            vs.append(V('constant-flag', '%s: per-instance Parameter %s of i%d is not constant with no edit_constant block open' % (ctx, n, i),
                                        level='instance', name=n, after=k))
        fp = None
        if not vs:
            roots = [('A', w['A']), ('B', w['B'])] + [('i%d' % i, o) for i, o in enumerate(w['i'])]
            if sl == 'refs':
                roots += [('S', w['S']), ('T', w['T'])]
            w['hook'].clear()
            fp = try_fingerprint(roots, extra=repr(model))
        nxt = [] if vs else self.enabled(model, sl)
        return Result(vs[:4], fp=fp, next_ops=nxt, outcome=repr(model['held']), hits=hits)


HARNESS = C14()
