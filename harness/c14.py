"""C14 — constant and read-only parameters cannot be rebound after construction.

Explicit-state BFS over instance sets (new and identical object), update, class-level sets on the declaring class and a subclass,
nested / failing edit_constant blocks and per-instance Parameter creation, against a model of the held identities."""
from mc.engine import Harness, Result, V
from mc.heapfp import try_fingerprint
from mc.world import reset_globals


class Boom(Exception):
    pass


class C14(Harness):
    pid = 'C14'
    level = 'model_checking'
    kind = 'bfs'
    technique = ('explicit-state BFS over assignment / update / class-level set / edit_constant (nested, failing) histories on real objects vs. a '
                 'model of the identity held by each constant parameter')
    rule = ('state = (model identities + open edit blocks, heap fingerprint of classes and instances); transition = one operation; after every step the '
            'object held by c, r, name on both instances and the class defaults are compared by identity with the model, and once no edit block is open every '
            'constant flag on class and instance Parameter objects must be True')
    assumptions = ('two instances of a subclass B(A): one built without, one with constructor arguments; assignments to a constant of the *other* '
                   'instance while an edit_constant block is open on one instance follow the implementation (the statement does not say whose block counts)',)
    MAXNEST = 2

    def bounds(self, tier):
        return {'depth': 4 if tier == 'quick' else 5, 'nesting': self.MAXNEST}

    def depth(self, tier, cfg):
        return 4 if tier == 'quick' else 5

    def fresh(self):
        import param
        reset_globals()
        objs = {'c0': [0], 'c9': [9], 'n1': [1], 'n2': [2], 'n3': [3]}
        A = type('A', (param.Parameterized,), {'c': param.Parameter(default=objs['c0'], constant=True), 'r': param.Parameter(default=7, readonly=True),
                                                 'p': param.Parameter(default=1), 'cn': param.Parameter(default=None, constant=True)})
        B = type('B', (A,), {})
        i0 = B()
        i1 = B(c=objs['c9'], name='nm')
        w = {'param': param, 'A': A, 'B': B, 'i': [i0, i1], 'objs': objs, 'stack': []}
        model = {'held': [{'c': 'c0', 'r': 7, 'name': i0.name, 'cn': None}, {'c': 'c9', 'r': 7, 'name': 'nm', 'cn': None}], 'cls': {'A': 'c0', 'B': None}, 'edit': []}
        return w, model

    def enabled(self, model):
        ops = []
        for i in (0, 1):
            ops += [['iset', i, 'c', 'n1'], ['iset', i, 'c', 'same'], ['iset', i, 'r', 8], ['iset', i, 'name', 'zz'], ['iupdate', i, 'c', 'n2'], ['touch', i, 'c'], ['iset', i, 'cn', 'n1']]
            if len(model['edit']) < self.MAXNEST:
                ops.append(['open_edit', i])
        ops += [['cset', 'A', 'c', 'n3'], ['cset', 'B', 'c', 'n3'], ['cset', 'A', 'r', 9], ['cset', 'B', 'r', 9], ['cset', 'A', 'cn', 'n2'], ['cset', 'B', 'cn', 'n2']]
        if model['edit']:
            ops += [['close'], ['raise']]
        return ops

    def execute(self, cfg, history):
        w, model = self.fresh()
        param = w['param']
        objs = w['objs']
        vs = []
        hits = {}

        def tokof(o):
            for k, v in objs.items():
                if v is o:
                    return k
            return repr(o)
        for step, op in enumerate(history):
            last = step == len(history) - 1
            k = op[0]
            exc = None
            expect_exc = None          # None: must succeed; 'TypeError': must raise; 'EITHER'
            ctx = 'history %r' % (history,)
            try:
                if k in ('iset', 'iupdate'):
                    i, n, v = op[1], op[2], op[3]
                    inst = w['i'][i]
                    mine_open = i in model['edit']
                    other_open = bool(model['edit']) and not mine_open
                    if n in ('c', 'cn'):
                        if v != 'same' and model['held'][i][n] == v:
                            v = 'same'          # the identical object is already held
                        val = getattr(inst, n) if v == 'same' else objs[v]
                        if v == 'same':
                            expect_exc = None
                        elif mine_open:
                            expect_exc = None
                        elif other_open:
                            expect_exc = 'EITHER'
                        else:
                            expect_exc = 'TypeError'
                    elif n == 'r':
                        val, expect_exc = v, 'TypeError'
                    else:
                        val = v
                        expect_exc = None if mine_open else ('EITHER' if other_open else 'TypeError')
                    if k == 'iset':
                        setattr(inst, n, val)
                    else:
                        inst.param.update(**{n: val})
                elif k == 'touch':
                    w['i'][op[1]].param[op[2]]
                elif k == 'cset':
                    expect_exc = 'TypeError' if op[2] == 'r' else None
                    setattr(w[op[1]], op[2], objs[op[3]] if op[2] in ('c', 'cn') else op[3])
                elif k == 'open_edit':
                    cm = param.parameterized.edit_constant(w['i'][op[1]])
                    cm.__enter__()
                    w['stack'].append(cm)
                elif k == 'close':
                    w['stack'].pop().__exit__(None, None, None)
                elif k == 'raise':
                    e = Boom('body')
                    w['stack'].pop().__exit__(Boom, e, None)
            except Exception as e:
                exc = e
            # ---- model update + verdict for this step
            if k in ('iset', 'iupdate'):
                i, n = op[1], op[2]
                if exc is None:
                    if n in ('c', 'cn') and v != 'same':
                        model['held'][i][n] = v
                    if n == 'name':
                        model['held'][i]['name'] = v
                    if n == 'r':
                        model['held'][i]['r'] = v
                hits['accepted' if exc is None else 'rejected'] = 1
                if last:
                    key = dict(op=k, name=n, value='same' if v == 'same' else 'new', inside_own_edit=i in model['edit'], other_edit_open=bool(model['edit']) and i not in model['edit'])
                    if expect_exc == 'TypeError' and exc is None:
                        vs.append(V('rebound-outside-edit', '%s: %s.%s = %r was accepted outside edit_constant' % (ctx, 'i%d' % i, n, v), **key))
                    elif expect_exc == 'TypeError' and not isinstance(exc, TypeError):
                        vs.append(V('wrong-exception', '%s: raised %r, not TypeError' % (ctx, exc), **key))
                    elif expect_exc is None and exc is not None:
                        vs.append(V('legitimate-set-rejected', '%s: %r raised %r' % (ctx, op, exc), **key))
            elif k == 'cset':
                if exc is None and op[2] == 'c':
                    model['cls'][op[1]] = op[3]
                if last:
                    if expect_exc == 'TypeError' and not isinstance(exc, TypeError):
                        vs.append(V('readonly-class-set', '%s: class-level assignment to the read-only parameter gave %r' % (ctx, exc), cls=op[1]))
                    if expect_exc is None and exc is not None:
                        vs.append(V('legitimate-set-rejected', '%s: %r raised %r' % (ctx, op, exc), op=k, cls=op[1]))
            elif k == 'open_edit':
                model['edit'].append(op[1])
            elif k in ('close', 'raise'):
                model['edit'].pop()
                if exc is not None and last:
                    vs.append(V('edit-exit-raises', '%s: leaving edit_constant raised %r' % (ctx, exc), op=k))
            elif exc is not None and last:
                vs.append(V('op-raises', '%s: %r raised %r' % (ctx, op, exc), op=k))
            if not last:
                continue
            # ---- state checks
            for i, inst in enumerate(w['i']):
                for n in ('c', 'r', 'name', 'cn'):
                    got = getattr(inst, n)
                    exp = model['held'][i][n]
                    ok = (got is (objs[exp] if exp is not None else None)) if n in ('c', 'cn') else (got == exp)
                    if not ok:
                        vs.append(V('held-object', '%s: i%d.%s holds %s, expected %s' % (ctx, i, n, tokof(got) if n in ('c', 'cn') else got, exp), name=n, op=k))
            a_c = model['cls']['A']
            b_c = model['cls']['B'] or a_c
            if w['A'].c is not objs[a_c] or w['B'].c is not objs[b_c]:
                vs.append(V('class-default', '%s: class defaults A.c=%s B.c=%s, expected %s / %s' % (ctx, tokof(w['A'].c), tokof(w['B'].c), a_c, b_c), op=k))
            if w['A'].r != 7 or w['B'].r != 7:
                vs.append(V('readonly-changed', '%s: read-only class value changed' % ctx, op=k))
            if not model['edit']:
                for label, K in (('A', w['A']), ('B', w['B'])):
                    for n in ('c', 'r', 'name'):
                        pobj = K.__dict__.get(n) or K.param[n]
                        if not pobj.constant:
                            vs.append(V('constant-flag', '%s: %s.%s.constant is False with no edit_constant block open' % (ctx, label, n), level='class', name=n, after=k))
                for i, inst in enumerate(w['i']):
                    for n, pobj in inst._param__private.params.items():
                        if n in ('c', 'r', 'name') and not pobj.constant:
                            vs.append(V('constant-flag', '%s: per-instance Parameter %s of i%d is not constant with no edit_constant block open' % (ctx, n, i),
                                        level='instance', name=n, after=k))
        fp = None
        if not vs:
            fp = try_fingerprint([('A', w['A']), ('B', w['B']), ('i0', w['i'][0]), ('i1', w['i'][1])], extra=repr(model))
        nxt = [] if vs else self.enabled(model)
        return Result(vs[:4], fp=fp, next_ops=nxt, outcome=repr(model['held']), hits=hits)


HARNESS = C14()
