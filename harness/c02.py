"""C02 — a rejected assignment has no observable effect.

BFS over histories of successful assignments/links; in every reached state every rejected attempt (invalid plain value, reference
whose current value is invalid, constant / read-only violation; instance, class, subclass and single-key update routes) is made on
a fresh replay and judged by (i) it raises, (ii) no watcher ran, (iii) snapshot of values/links/watcher tables unchanged, (iv) twin
world: history + attempt + probe observes exactly what history + probe observes."""
import os

from mc import pin
from mc.engine import Harness, Result, V
from mc.world import reset_globals


class Counter:
    """a stateful value generator for a Dynamic (Number) parameter"""
    def __init__(self):
        self.n = 0

    def __call__(self):
        self.n += 1
        return self.n

    def __repr__(self):
        return 'Counter(%d)' % self.n

ATTEMPTS = [
    ['inst', 'n', 'plain', 99], ['inst', 'n', 'plain', 'str'], ['inst', 'n', 'plain', float('nan')], ['update', 'n', 'plain', 99],
    ['cls', 'TB', 'n', 'plain', 99], ['cls', 'TA', 'n', 'plain', 'bad'], ['clsupdate', 'TB', 'n', 'plain', -1],
    ['inst', 'n', 'ref', 'S1.bad'], ['inst', 'n', 'ref', 'bind+100'], ['inst', 'n', 'ref', 'rx+100'], ['update', 'n', 'ref', 'S1.bad'],
    ['inst', 'c', 'plain', 1], ['update', 'c', 'plain', 1], ['inst', 'c', 'ref', 'S1.v'], ['inst', 'cl', 'plain', 1], ['inst', 'cl', 'ref', 'S1.v'], ['inst', 'r', 'plain', 1], ['cls', 'TB', 'r', 'plain', 1],
    ['cls', 'TA', 'r', 'plain', 1], ['inst', 'r', 'ref', 'S1.v'], ['inst', 's', 'plain', 5], ['inst', 'name', 'plain', 'newname'],
    ['inst', 'go', 'plain', 'yes'], ['update', 'go', 'plain', 'yes'], ['inst', 'armed', 'plain', 'yes'], ['cls', 'TB', 'armed', 'plain', None],
    ['update', 'armed', 'plain', 1],
    ['inst', 'fn', 'plain', 'nope.txt'], ['cls', 'TB', 'fn', 'plain', 'nope.txt'], ['update', 'fn', 'plain', 'nope.txt'], ['clsupdate', 'TB', 'fn', 'plain', 'nope.txt'],
    ['inst', 'cnum', 'gen', None], ['inst', 'rnum', 'gen', None], ['cls', 'TB', 'rnum', 'gen', None],
    # a callable that cannot serve as a value generator (a builtin takes no attributes): refused before anything is stored
    ['inst', 'dyn', 'builtin', None], ['update', 'dyn', 'builtin', None], ['cls', 'TB', 'dyn', 'builtin', None],
    # only a rejection while the parameter has been made constant on the instance (skipped otherwise)
    ['inst', 'k', 'plain', 'zz', 'if-constified'], ['update', 'k', 'plain', 'zz', 'if-constified'],
]


class World:
    def __init__(self):
        import param
        reset_globals()
        self.param = param
        self.log = []

        class Src(param.Parameterized):
            v = param.Parameter(default=4)
            w = param.Parameter(default=2)
            bad = param.Parameter(default=99)

        class TA(param.Parameterized):
            n = param.Number(default=5, bounds=(0, 10), allow_refs=True)
            m = param.Parameter(default='m0', allow_refs=True)
            c = param.Parameter(default=0, constant=True, allow_refs=True)
            cl = param.Parameter(default=0, constant=True, allow_refs=True)        # linked through the constructor (below)
            r = param.Parameter(default=0, readonly=True, allow_refs=True)
            s = param.String(default='s0')
            k = param.Parameter(default='k0')
            go = param.Event()
            armed = param.Event(default=True)
            fn = param.Filename(default='engine.py', search_paths=[os.path.join(pin.VERIF, 'mc')])
            dyn = param.Number(default=1)
            cnum = param.Number(default=0, constant=True)
            rnum = param.Number(default=0, readonly=True)

        class TB(TA):
            pass

        self.Src, self.TA, self.TB = Src, TA, TB
        self.S1 = Src()
        self.R = param.rx(3)
        self.t = TB(cl=self.S1.param.w)
        self.t2 = TA()
        self.stack = []
        self.constified = False
        self.gen = Counter()
        # per-instance Parameter copies are created up-front in every world: creating one is a side effect of any
        # instance-level access and not among the things the property lists
        for o in (self.t, self.t2, self.S1):
            for p in o.param:
                o.param[p]
        for label, o in (('t', self.t), ('S1', self.S1), ('t2', self.t2)):
            o.param.watch(self._cb(label), [p for p in o.param if p != 'name'], onlychanged=False)
        for label, c in (('TA', TA), ('TB', TB)):
            c.param.watch(self._cb(label), ['n', 'm', 's', 'k'], onlychanged=False)

    def _cb(self, label):
        def cb(*events):
            for e in events:
                self.log.append((label, e.name, repr(e.old), repr(e.new)))
        return cb

    def ref(self, name):
        param, S1 = self.param, self.S1
        if name == 'S1.v':
            return S1.param.v
        if name == 'S1.w':
            return S1.param.w
        if name == 'S1.bad':
            return S1.param.bad
        if name == 'bind(v)':
            return param.bind(lambda v: v + 1, S1.param.v)
        if name == 'bind+100':
            return param.bind(lambda v: v + 100, S1.param.v)
        if name == 'rx(v)':
            return S1.param.v.rx() + 2
        if name == 'rx+100':
            return S1.param.v.rx() + 100
        if name == 'R':
            return self.R * 1
        raise AssertionError(name)

    def do(self, op):
        t = self.t
        k = op[0]
        if k == 'set':
            setattr(t, op[1], op[2])
        elif k == 'link':
            setattr(t, op[1], self.ref(op[2]))
        elif k == 'src':
            setattr(self.S1, op[1], op[2])
        elif k == 'root':
            self.R.rx.value = op[1]
        elif k == 'update':
            t.param.update(**{n: v for n, v in op[1]})
        elif k == 'cset':
            setattr(getattr(self, op[1]), op[2], op[3])
        elif k == 'setgen':
            t.dyn = self.gen             # dyn now produces its values by calling the generator
            t.dyn                       # (one value has been produced)
        elif k == 'constify':
            t.param[op[1]].constant = True
            self.constified = True
        elif k == 'open':
            cm = {'batch': self.param.parameterized.batch_call_watchers, 'discard': self.param.parameterized.discard_events}[op[1]](t)
            cm.__enter__()
            self.stack.append(cm)
        elif k == 'readdyn':
            self.log.append(('dyn-read', repr(t.dyn)))
        elif k == 'closeall':
            while self.stack:
                self.stack.pop().__exit__(None, None, None)
        else:
            raise AssertionError(op)

    def prepare(self, a):
        """build the value first (constructing a bind/rx reference object has effects of its own, e.g. rx installs its
        invalidation watchers), return a thunk that performs only the assignment"""
        route = a[0]
        a = a[:4] if a[-1] == 'if-constified' else a
        if route in ('inst', 'update'):
            _, pname, kind, val = a
            v = self.ref(val) if kind == 'ref' else (self.gen if kind == 'gen' else (abs if kind == 'builtin' else val))
            if route == 'inst':
                return lambda: setattr(self.t, pname, v)
            return lambda: self.t.param.update(**{pname: v})
        _, cname, pname, kind, val = a
        cls = getattr(self, cname)
        if kind == 'gen':
            val = self.gen
        if kind == 'builtin':
            val = abs
        if route == 'cls':
            return lambda: setattr(cls, pname, val)
        return lambda: cls.param.update(**{pname: val})

    def snapshot(self):
        snap = {'gen': (self.gen.n, getattr(self.gen, '_Dynamic_last', '-'), getattr(self.gen, '_Dynamic_time', '-'))}
        for label, o in (('t', self.t), ('S1', self.S1), ('t2', self.t2)):
            snap[label + '.values'] = {p: (repr(getattr(o, p)) if p == 'fn' else id(getattr(o, p))) for p in o.param if p != 'dyn'}
            if 'dyn' in o.param:
                snap[label + '.dyn'] = (repr(o.param.inspect_value('dyn')), id(o.param.get_value_generator('dyn')))
            snap[label + '.stored'] = {p: id(v) for p, v in o._param__private.values.items()}
            snap[label + '.refs'] = {k: id(v) for k, v in o._param__private.refs.items()}
            snap[label + '.async'] = sorted(o._param__private.async_refs)
            snap[label + '.watchers'] = {p: {w: [id(x) for x in ws] for w, ws in d.items()} for p, d in o._param__private.watchers.items()}
            snap[label + '.ref_watchers'] = [id(w) for _, w in o._param__private.ref_watchers]
        for label, c in (('TA', self.TA), ('TB', self.TB), ('Src', self.Src)):
            snap[label + '.defaults'] = {p: (repr(getattr(c, p)) if p == 'fn' else id(getattr(c, p))) for p in c.param if p != 'dyn'}
            # which Parameter object governs each name on the class (a subclass follows its parent's object until it gets its own)
            snap[label + '.pobjs'] = {p: id(c.param[p]) for p in c.param}
            snap[label + '.own'] = sorted(n for n, x in vars(c).items() if isinstance(x, self.param.Parameter))
        return snap

    PROBE = [['closeall'], ['src', 'v', 6], ['src', 'w', 7], ['root', 8], ['cset', 'TA', 'n', 8], ['cset', 'TA', 'm', 'cm'], ['set', 'n', 1], ['set', 'm', 'y'],
             ['src', 'v', 3], ['cset', 'TB', 's', 'sb'], ['cset', 'TA', 's', 'sa'], ['cset', 'TA', 'k', 'k1'], ['set', 'go', True], ['cset', 'TA', 'fn', 'pin.py'], ['readdyn']]

    def probe(self):
        out = []
        for op in self.PROBE:
            del self.log[:]
            exc = None
            try:
                self.do(op)
            except Exception as e:
                exc = type(e).__name__
            obs = {'t': {p: repr(getattr(self.t, p)) for p in ('n', 'm', 'c', 'r', 's', 'k', 'go', 'armed', 'fn', 'cnum', 'rnum')},
                   'dyn': repr(self.t.param.inspect_value('dyn')),
                   'TBfn': (repr(self.TB.fn), repr(self.TA.fn)),
                   't2': {p: repr(getattr(self.t2, p)) for p in ('n', 'm', 's')},
                   'TA': {p: repr(getattr(self.TA, p)) for p in ('n', 'm', 's', 'r')}, 'TB': {p: repr(getattr(self.TB, p)) for p in ('n', 'm', 's', 'r')},
                   'S1': {p: repr(getattr(self.S1, p)) for p in ('v', 'w')}}
            out.append((op, exc, list(self.log), obs))
        return out


class C02(Harness):
    pid = 'C02'
    level = 'model_checking'
    kind = 'bfs'
    technique = ('explicit-state BFS over histories of successful assignments/links; in every state every rejected attempt is executed on a '
                 'fresh replay and judged by snapshot equality and a differential twin-world probe')
    rule = ('state = history of successful operations (replayed from scratch); transition = one successful operation; in each state all %d rejected '
            'attempts x {raises, no watcher ran, snapshot unchanged, twin-world probe equal} are evaluated; non-trivial = state in which at least one '
            'link is live or a value differs from the defaults' % len(ATTEMPTS))
    assumptions = ('rejected attempts are the three kinds the property lists, made on the target through instance, class, subclass and single-key '
                   'update routes; exceptions raised by a source assignment whose propagation is invalid for a linked target are not "rejected '
                   'assignments" of this property (C05/C08)',)

    def bounds(self, tier):
        return {'prefix_depth': 2 if tier == 'quick' else 3, 'attempts': len(ATTEMPTS)}

    def depth(self, tier, cfg):
        return 2 if tier == 'quick' else 3

    OPS = [['set', 'n', 3], ['set', 'm', 'x'], ['src', 'v', 5], ['link', 'n', 'S1.v'], ['link', 'm', 'S1.w'], ['link', 'n', 'bind(v)'],
           ['link', 'm', 'rx(v)'], ['link', 'm', 'R'], ['update', [['n', 2], ['m', 9]]], ['root', 4], ['cset', 'TA', 'n', 6], ['cset', 'TB', 'm', 'cb'],
           ['constify', 'k'], ['open', 'batch'], ['open', 'discard'], ['setgen']]

    def execute(self, cfg, history):
        def build():
            w = World()
            for op in history:
                w.do(op)
            return w
        try:
            twin = build()
        except Exception as e:
            return Result([V('prefix-raises', 'successful prefix %r raised %r' % (history, e))], outcome='x')
        twin_obs = twin.probe()
        vs = []
        hits = {'attempt': 0}
        for a in ATTEMPTS:
            w = build()
            if a[-1] == 'if-constified':
                if not w.constified:
                    continue
                a = a[:4]
            key = dict(route=a[0], target=a[-3] if a[0] in ('inst', 'update') else a[1] + '.' + a[2], kind=a[-2], value=repr(a[-1]))
            thunk = w.prepare(a)
            before = w.snapshot()
            del w.log[:]
            exc = None
            try:
                thunk()
            except Exception as e:
                exc = e
            hits['attempt'] += 1
            ctx = 'history %r, attempt %r' % (history, a)
            if exc is None:
                vs.append(V('attempt-accepted', '%s: did not raise' % ctx, **key))
                continue
            if not isinstance(exc, (ValueError, TypeError) + ((OSError,) if 'fn' in a else ())):
                vs.append(V('wrong-exception', '%s: raised %r' % (ctx, exc), **key))
            if w.log:
                vs.append(V('watcher-ran', '%s: watchers ran during the rejected attempt: %r' % (ctx, w.log[:3]), **key))
            after = w.snapshot()
            if after != before:
                diff = [k for k in before if before[k] != after[k]]
                vs.append(V('snapshot-changed', '%s: changed after the rejected attempt: %r' % (ctx, diff), what=','.join(x.split('.')[-1] for x in diff), **key))
                continue
            obs = w.probe()
            if obs != twin_obs:
                for x, y in zip(obs, twin_obs):
                    if x != y:
                        vs.append(V('twin-world-differs', '%s: probe step %r observed %r; without the attempt: %r' % (ctx, x[0], x[1:], y[1:]),
                                    step=repr(x[0]), **key))
                        break
        nontrivial = bool(history)
        r = Result(vs[:6], fp=None, next_ops=[] if vs else list(self.OPS), outcome=repr(len(vs)), hits=hits, nontrivial=nontrivial)
        r['n'] = len(ATTEMPTS)
        return r


HARNESS = C02()
