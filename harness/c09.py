"""C09 — reactive expressions evaluate to the plain-Python result on current inputs.

Part A (operator table): every operator form Python can dispatch to an expression (binary, reflected, unary, indexing, attribute,
method call, stateless .rx helpers) compared with the plain result.  Part B (cache coherence): expression DAGs of <= 2 operation
nodes (shared sub-expressions, an input used both as pipeline root and as argument, nested where / pipe / bind) x all histories of
input updates interleaved with reads, against a direct evaluator over the same tree; optional .rx.watch callback."""
import itertools
import math
import operator

from mc.engine import Harness, Result, V
from mc.world import reset_globals


class Mat:
    """supports @ in both directions"""
    def __init__(self, v):
        self.v = v

    def __matmul__(self, o):
        return ('matmul', self.v, getattr(o, 'v', o))

    def __rmatmul__(self, o):
        return ('rmatmul', getattr(o, 'v', o), self.v)

    def __eq__(self, o):
        return (o.v == self.v) if isinstance(o, Mat) else NotImplemented

    def __hash__(self):
        return hash(self.v)


BINOPS = {'add': operator.add, 'sub': operator.sub, 'mul': operator.mul, 'truediv': operator.truediv, 'floordiv': operator.floordiv,
          'mod': operator.mod, 'pow': operator.pow, 'lshift': operator.lshift, 'rshift': operator.rshift, 'and': operator.and_,
          'xor': operator.xor, 'or': operator.or_, 'matmul': operator.matmul, 'lt': operator.lt, 'le': operator.le, 'eq': operator.eq,
          'ne': operator.ne, 'gt': operator.gt, 'ge': operator.ge, 'divmod': divmod}
UNOPS = {'neg': operator.neg, 'pos': operator.pos, 'invert': operator.invert, 'abs': abs, 'round': round, 'ceil': math.ceil, 'floor': math.floor,
         'trunc': math.trunc}
OPERANDS = [6, 2, 2.5, -3, 'ab', 'cd', [1, 2], [3], (1,), (2, 3), {1, 2}, {'a': 1}, {'a': 9, 'b': 2}, True, Mat(3), Mat(4)]


def same(a, b):
    if type(a) is not type(b):
        return False
    if isinstance(a, float) and a != a:
        return b != b
    return a == b


def outcome(fn):
    try:
        return ('ok', fn())
    except Exception as e:
        return ('exc', type(e).__name__)


# ---------------------------------------------------------------- Part B: expression trees
LEAVES = ['r1', 'r2', 'pa', 'pb', 'bf', 'k']
INIT = {'r1': 6, 'r2': 3, 'a': 4, 'b': 2}
OPS_B = ['add', 'sub', 'mul', 'truediv', 'floordiv', 'mod', 'lt', 'eq']


def trees(tier):
    out = []
    roots = ['r1', 'pa']
    args = ['r2', 'pb', 'bf', 'k', 'r1']
    ops = OPS_B if tier == 'thorough' else ['add', 'mul', 'truediv', 'mod', 'lt', 'sub']
    size1 = []
    for op in ops:
        for r in roots:
            for a in args:
                size1.append(['bin', op, r, a])
        size1.append(['rbin', op, 'k', 'r1'])          # const op expr
        size1.append(['rbin', op, 'k', 'pa'])
    size1 += [['where', 'r1', 'r2', 'pa'], ['where', 'r2', 'r1', 'k'], ['where', 'pa', 'pb', 'r1'], ['pipe', 'r1', 'k'], ['pipe', 'pa', 'r2'], ['pipe', 'r1', 'pb'],
              ['and_', 'r1', 'r2'], ['or_', 'r1', 'pa'], ['not_', 'r1'], ['bool', 'pa'], ['is_', 'r1', 'k'], ['is_not', 'r1', 'r2'], ['in_', 'r1', 'lst'],
              ['len', 'lst'], ['index', 'lst', 'k0'], ['index', 'lst', 'ri'], ['map', 'lst'], ['method', 'r1'], ['attr', 'cplx'], ['attr2', 'cplx'], ['pipekwrev', 'lst'], ['mapkwrev', 'lst'], ['neg', 'r1'], ['abs', 'pa'],
              ['bindexpr', 'r1', 'pa'], ['call2', 'r1', 'r2'],
              ['pipekw', 'r1', 'r2'], ['pipekw', 'pa', 'pb'], ['pipekw', 'r1', 'bf'], ['mapkw', 'lst', 'r2'], ['methodkw', 'r2'],
              ['in_', 'r1', 'pl'], ['bin', 'mul', 'r1', 'plen'], ['index', 'plr', 'k0']]
    out += size1
    # size 2: an operation over a size-1 node (shared sub-expression, input reused as argument, nested where / pipe)
    inner = [['bin', 'add', 'r1', 'r2'], ['bin', 'truediv', 'r1', 'pa'], ['bin', 'mul', 'pa', 'pb'], ['where', 'r1', 'r2', 'pa'], ['pipe', 'r1', 'k'],
             ['bin', 'lt', 'r1', 'r2'], ['rbin', 'sub', 'k', 'r1']]
    for i in inner:
        for op in (ops if tier == 'thorough' else ['add', 'truediv', 'mul']):
            out.append(['bin', op, i, 'r1'])            # input used as root of the inner node and as argument
            out.append(['bin', op, i, 'SELF'])          # the same sub-expression object twice
            out.append(['bin', op, i, 'pb'])
            out.append(['rbin', op, 'k', i])
        out.append(['where', i, 'r2', 'k'])
        out.append(['where', 'r2', i, 'pa'])
        out.append(['where', 'r1', i, i])               # shared input in both branches
        out.append(['pipe', i, 'r2'])
        out.append(['not_', i])
        out.append(['and_', i, 'pa'])
    return out


class World:
    def __init__(self):
        import param
        reset_globals()
        self.param = param
        self.P = type('P', (param.Parameterized,), {'a': param.Parameter(default=INIT['a']), 'b': param.Parameter(default=INIT['b']),
                                                    'items': param.List(default=[6, 1])})()
        self.r1 = param.rx(INIT['r1'])
        self.r2 = param.rx(INIT['r2'])
        self.lst = param.rx([1, 2, 3])
        self.ri = param.rx(1)
        self.cplx = param.rx(3 + 4j)
        self.vals = dict(INIT, lst=[1, 2, 3], ri=1, cplx=3 + 4j, items=[6, 1])
        self.built = {}

    def leaf(self, name, as_root):
        param = self.param
        if name == 'r1':
            return self.r1
        if name == 'r2':
            return self.r2
        if name == 'pa':
            return self.P.param.a.rx() if as_root else self.P.param.a
        if name == 'pb':
            return self.P.param.b.rx() if as_root else self.P.param.b
        if name == 'bf':
            return param.bind(lambda a: a * 10, self.P.param.a)
        if name == 'k':
            return 5
        if name == 'k0':
            return 0
        if name == 'lst':
            return self.lst
        if name == 'ri':
            return self.ri
        if name == 'cplx':
            return self.cplx
        if name == 'pl':
            return self.P.param.items
        if name == 'plr':
            return self.P.param.items.rx()
        if name == 'plen':
            return self.param.bind(len, self.P.param.items)
        raise KeyError(name)

    def build(self, t, as_root=True, wrap=True):
        if isinstance(t, str):
            return self.leaf(t, as_root)
        key = repr(t)
        k = t[0]
        if k == 'bin':
            x = self.build(t[2])
            y = x if t[3] == 'SELF' else self.build(t[3], as_root=False)
            return BINOPS[t[1]](x, y)
        if k == 'rbin':
            return BINOPS[t[1]](self.build(t[2], False), self.build(t[3]))
        if k == 'where':
            res = self.build(t[1]).rx.where(self.build(t[2], False), self.build(t[3], False))
            # .rx.where returns a bound function (with its own .rx namespace); it has to be wrapped to take part in operators
            return self.param.rx(res) if wrap else res
        if k == 'pipe':
            return self.build(t[1]).rx.pipe(lambda x, y: (x, y), self.build(t[2], False))
        if k == 'and_':
            return self.build(t[1]).rx.and_(self.build(t[2], False))
        if k == 'or_':
            return self.build(t[1]).rx.or_(self.build(t[2], False))
        if k == 'not_':
            return self.build(t[1]).rx.not_()
        if k == 'bool':
            return self.build(t[1]).rx.bool()
        if k == 'is_':
            return self.build(t[1]).rx.is_(self.build(t[2], False))
        if k == 'is_not':
            return self.build(t[1]).rx.is_not(self.build(t[2], False))
        if k == 'in_':
            return self.build(t[1]).rx.in_(self.build(t[2], False))
        if k == 'len':
            return self.build(t[1]).rx.len()
        if k == 'index':
            return self.build(t[1])[self.build(t[2], False)]
        if k == 'map':
            return self.build(t[1]).rx.map(lambda x: x * 2)
        if k == 'method':
            return self.build(t[1]).bit_length()
        if k == 'attr':
            return self.build(t[1]).real
        if k == 'pipekwrev':
            return self.build(t[1]).rx.pipe(sorted, reverse=True)        # a keyword of the piped function that is also a name used internally
        if k == 'mapkwrev':
            return self.build(t[1]).rx.map(lambda v, reverse=False, operator=1: (-v if reverse else v) * operator, reverse=True, operator=3)
        if k == 'attr2':
            m = self.build(t[1]).real          # one attribute-access node used by two consumers
            first = m + 1
            return m * 2 + first
        if k == 'neg':
            return -self.build(t[1])
        if k == 'abs':
            return abs(self.build(t[1]))
        if k == 'bindexpr':
            return self.param.rx(self.param.bind(lambda x, y: x - y, self.build(t[1]), self.build(t[2], False)))
        if k == 'call2':
            return self.build(t[1]).rx.pipe(pow, self.build(t[2], False))
        if k == 'pipekw':
            return self.build(t[1]).rx.pipe(lambda x, y=None: (x, y), y=self.build(t[2], False))
        if k == 'mapkw':
            return self.build(t[1]).rx.map(lambda x, k=None: (x, k), k=self.build(t[2], False))
        if k == 'methodkw':
            return self.param.rx('{a}-{b}').format(a=self.build(t[1], False), b=7)
        raise KeyError(k)

    def plain(self, t):
        v = self.vals
        if isinstance(t, str):
            return {'r1': v['r1'], 'r2': v['r2'], 'pa': v['a'], 'pb': v['b'], 'bf': v['a'] * 10, 'k': 5, 'k0': 0, 'lst': v['lst'], 'ri': v['ri'],
                    'cplx': v['cplx'], 'pl': v['items'], 'plr': v['items'], 'plen': len(v['items'])}[t]
        k = t[0]
        if k == 'bin':
            x = self.plain(t[2])
            y = x if t[3] == 'SELF' else self.plain(t[3])
            return BINOPS[t[1]](x, y)
        if k == 'rbin':
            return BINOPS[t[1]](self.plain(t[2]), self.plain(t[3]))
        if k == 'where':
            return self.plain(t[2]) if self.plain(t[1]) else self.plain(t[3])
        if k == 'pipe':
            return (self.plain(t[1]), self.plain(t[2]))
        if k == 'and_':
            return self.plain(t[1]) and self.plain(t[2])
        if k == 'or_':
            return self.plain(t[1]) or self.plain(t[2])
        if k == 'not_':
            return not self.plain(t[1])
        if k == 'bool':
            return bool(self.plain(t[1]))
        if k == 'is_':
            return self.plain(t[1]) is self.plain(t[2])
        if k == 'is_not':
            return self.plain(t[1]) is not self.plain(t[2])
        if k == 'in_':
            return self.plain(t[1]) in self.plain(t[2])
        if k == 'len':
            return len(self.plain(t[1]))
        if k == 'index':
            return self.plain(t[1])[self.plain(t[2])]
        if k == 'map':
            return [x * 2 for x in self.plain(t[1])]
        if k == 'method':
            return self.plain(t[1]).bit_length()
        if k == 'attr':
            return self.plain(t[1]).real
        if k == 'pipekwrev':
            return sorted(self.plain(t[1]), reverse=True)
        if k == 'mapkwrev':
            return [-v * 3 for v in self.plain(t[1])]
        if k == 'attr2':
            m = self.plain(t[1]).real
            return m * 2 + (m + 1)
        if k == 'neg':
            return -self.plain(t[1])
        if k == 'abs':
            return abs(self.plain(t[1]))
        if k == 'bindexpr':
            return self.plain(t[1]) - self.plain(t[2])
        if k == 'call2':
            return pow(self.plain(t[1]), self.plain(t[2]))
        if k == 'pipekw':
            return (self.plain(t[1]), self.plain(t[2]))
        if k == 'mapkw':
            return [(x, self.plain(t[2])) for x in self.plain(t[1])]
        if k == 'methodkw':
            return '{a}-{b}'.format(a=self.plain(t[1]), b=7)
        raise KeyError(k)

    def update(self, op):
        name, val = op[1], op[2]
        self.vals[name] = val
        if name == 'r1':
            self.r1.rx.value = val
        elif name == 'r2':
            self.r2.rx.value = val
        elif name == 'a':
            self.P.a = val
        elif name == 'b':
            self.P.b = val
        elif name == 'lst':
            self.lst.rx.value = val
        elif name == 'ri':
            self.ri.rx.value = val
        elif name == 'items':
            # in-place mutation announced with param.trigger (the object stays the same)
            self.P.items.append(val[-1])
            self.vals['items'] = list(self.P.items)
            self.P.param.trigger('items')


UPDATES = [['set', 'r1', 0], ['set', 'r1', 7], ['set', 'r2', 0], ['set', 'r2', 4], ['set', 'a', 0], ['set', 'a', 9], ['set', 'b', 5], ['set', 'b', 0]]
EXTRA_UPDATES = {'lst': [['set', 'lst', [5]], ['set', 'lst', [7, 8, 9, 10]]], 'ri': [['set', 'ri', 2], ['set', 'ri', 9]],
                 "'pl": [['set', 'items', [0]], ['set', 'items', [7]]]}


def uses(t, name):
    return name in repr(t)


class C09(Harness):
    pid = 'C09'
    level = 'model_checking'
    kind = 'enum'
    technique = ('operator table (bounded-exhaustive) plus exhaustive enumeration of expression DAGs x update/read histories on real rx expressions, '
                 'against a direct plain-Python evaluator over the same tree')
    rule = ('case = one operator form with one operand pair (part A) or one expression tree (part B); for a tree every history of <= L input updates / reads '
            'is replayed on a freshly built expression (states = history prefixes, transitions = updates/reads); non-trivial = the plain evaluation is defined')
    assumptions = ('updates never replace a value by an equal one of another numeric type (1 -> 1.0 -> True): whether such an update invalidates is a '
                   'changes-only question (C03); expressions are built while all inputs are valid; no numpy/pandas',)

    def bounds(self, tier):
        return {'history_length': 3 if tier == 'quick' else 4, 'trees': len(trees(tier))}

    def cases(self, tier):
        out = []
        for name in BINOPS:
            for i, j in itertools.product(range(len(OPERANDS)), repeat=2):
                for form in ('expr_op_const', 'const_op_expr', 'expr_op_expr'):
                    out.append({'part': 'A', 'op': name, 'i': i, 'j': j, 'form': form})
        for name in UNOPS:
            for i in range(len(OPERANDS)):
                out.append({'part': 'A', 'op': name, 'i': i, 'form': 'unary'})
        L = 3 if tier == 'quick' else 4
        for t in trees(tier):
            for watch in (False, True):
                out.append({'part': 'B', 'tree': t, 'watch': watch, 'L': L})
        return out

    def run_case(self, case):
        if case['part'] == 'A':
            return self.run_a(case)
        return self.run_b(case)

    def run_a(self, case):
        import param
        reset_globals()
        vs = []
        key = dict(op=case['op'], form=case['form'])
        if case['form'] == 'unary':
            fn = UNOPS[case['op']]
            a = OPERANDS[case['i']]
            exp = outcome(lambda: fn(a))
            got = outcome(lambda: fn(param.rx(a)).rx.value)
            desc = '%s(%r)' % (case['op'], a)
        else:
            fn = BINOPS[case['op']]
            a, b = OPERANDS[case['i']], OPERANDS[case['j']]
            exp = outcome(lambda: fn(a, b))
            def val(res):
                # when the other operand's own method answers (str % x, a user __eq__ that accepts anything) Python never dispatches to
                # the expression and the result is a plain value
                return res.rx.value if isinstance(res, param.rx) else res
            if case['form'] == 'expr_op_const':
                got = outcome(lambda: val(fn(param.rx(a), b)))
            elif case['form'] == 'const_op_expr':
                if case['op'] == 'mod' and isinstance(a, (str, bytes)):
                    return Result([], outcome='skip', nontrivial=False)      # str.__mod__ handles any right operand itself
                got = outcome(lambda: val(fn(a, param.rx(b))))
            else:
                got = outcome(lambda: val(fn(param.rx(a), param.rx(b))))
            desc = '%r %s %r (%s)' % (a, case['op'], b, case['form'])
        nontrivial = exp[0] == 'ok'
        if exp[0] == 'ok':
            if got[0] != 'ok' or not same(got[1], exp[1]):
                if True:
                    vs.append(V('operator-result', '%s: plain Python gives %r, the expression gives %r' % (desc, exp[1], got[1]), operand=type(a).__name__, **key))
        else:
            if got[0] == 'ok':
                vs.append(V('operator-error', '%s: plain Python raises %s, the expression evaluates to %r' % (desc, exp[1], got[1]), **key))
            elif got[1] != exp[1]:
                vs.append(V('operator-error', '%s: plain Python raises %s, the expression raises %s' % (desc, exp[1], got[1]), **key))
        return Result(vs, outcome=case['op'], hits={'table': 1}, nontrivial=nontrivial)

    def run_b(self, case):
        t, L, watch = case['tree'], case['L'], case['watch']
        ups = [u for u in UPDATES if uses(t, {'r1': 'r1', 'r2': 'r2', 'a': "'pa'", 'b': "'pb'"}[u[1]]) or (u[1] == 'a' and uses(t, 'bf'))]
        for extra, lst in EXTRA_UPDATES.items():
            if uses(t, extra):
                ups += lst
        alphabet = ups + [['read'], ['derive']]
        vs = []
        n = 0
        key = dict(tree=repr(t)[:80], watch=watch)
        for length in range(0, L + 1):
            for hist in itertools.product(alphabet, repeat=length):
                if vs:
                    break
                n += 1
                w = World()
                try:
                    E = w.build(t, wrap=False)
                except Exception as e:
                    vs.append(V('build-raises', 'building %r raised %r' % (t, e), **key))
                    break
                calls = []
                if watch:
                    E.rx.watch(lambda v: calls.append(v))
                derived = 0
                state = {'derived': 0}

                def pl():
                    return ('d', w.plain(t)) if state['derived'] else w.plain(t)
                for step, op in enumerate(hist):
                    last = step == len(hist) - 1
                    if op[0] == 'derive':
                        # a new expression is derived from the (possibly already read, possibly stale) one in the middle of the history
                        if derived or watch:
                            break
                        try:
                            E = E.rx.pipe(lambda v: ('d', v))
                        except Exception:
                            break                     # (building on an expression that currently raises evaluates it)
                        derived = 1
                        state['derived'] = 1
                        continue
                    if op[0] == 'read':
                        exp = outcome(pl)
                        got = outcome(lambda: E.rx.value)
                        if last:
                            bad = self.differs(exp, got)
                            if bad:
                                vs.append(V('stale-or-wrong-value', 'tree %r history %r: plain evaluation %r, expression %r' % (t, list(hist), exp, got),
                                            kind=bad, **key))
                    else:
                        before = outcome(pl)
                        del calls[:]
                        try:
                            w.update(op)
                        except Exception as e:
                            # with a watcher attached the evaluation runs inside the update; an error of the expression itself may surface here
                            cur = outcome(pl)
                            if not watch and last and not (cur[0] == 'exc' and cur[1] == type(e).__name__):
                                vs.append(V('update-raises', 'tree %r history %r: update raised %r' % (t, list(hist), e), **key))
                            continue
                        after = outcome(pl)
                        if watch and last and after[0] == 'ok' and (before[0] != 'ok' or not same(before[1], after[1])):
                            if not calls or not same(calls[-1], after[1]):
                                vs.append(V('watch-not-called-with-fresh-value', 'tree %r history %r: value changed %r -> %r but the .rx.watch callback saw %r' % (
                                    t, list(hist), before, after, calls), **key))
                # closing read: whatever the history, the expression must now agree with plain Python
                if not vs:
                    exp = outcome(pl)
                    got = outcome(lambda: E.rx.value)
                    bad = self.differs(exp, got)
                    if bad:
                        vs.append(V('stale-or-wrong-value', 'tree %r history %r then read: plain evaluation %r, expression %r' % (t, list(hist), exp, got), kind=bad, **key))
                    elif got[0] == 'exc':
                        # ... and recover once the inputs are valid again
                        for name, val in (('r1', 6), ('r2', 3), ('a', 4), ('b', 2)):
                            try:
                                w.update(['set', name, val])
                            except Exception:
                                pass        # (a watcher evaluates inside the update; intermediate input combinations may still be invalid)
                        exp = outcome(pl)
                        got = outcome(lambda: E.rx.value)
                        bad = self.differs(exp, got)
                        if bad:
                            vs.append(V('no-recovery-after-error', 'tree %r history %r, then all inputs reset to valid values: plain %r, expression %r' % (t, list(hist), exp, got), **key))
        r = Result(vs[:3], outcome=t[0], hits={'histories': n}, nontrivial=True)
        r['n'] = max(1, n)
        return r

    @staticmethod
    def differs(exp, got):
        if exp[0] == 'ok':
            if got[0] != 'ok':
                return 'raises-instead'
            if not same(got[1], exp[1]):
                return 'value'
            return None
        if got[0] == 'ok':
            return 'value-instead-of-error'
        return None if got[1] == exp[1] else 'other-exception'


HARNESS = C09()
