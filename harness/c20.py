"""C20 — pprint / script_repr output rebuilds an equal object.

Bounded-exhaustive enumeration: class shape x parameter x value (plus all-parameters-at-once states); the produced text is
executed in a namespace holding only what its own import header (script_repr) or the classes' module (pprint) provides."""
import ast

from mc.engine import Harness, Result, V
from mc.world import reset_globals

INF = float('inf')


def value_table(C):
    ints = [0, 5, -3, 10 ** 20]
    floats = [0.0, -2.5, 1e-7, 1e300, INF, -INF, 3]
    strs = ['', 'a', "it's", 'say "hi"', 'back\\slash', 'new\nline\ttab', 'é☃', "mix'\"both"]
    lists = [[], [1], [1, 'a', None], [[1, 2], (3,)], [(1,)], [-1.5, INF], [True, b'x'], ['q"uote']]
    tuples2 = [(0, 0), (1, 'a'), ((1,), [2]), (-INF, None)]
    generic = [None, 0, -7, 2.5, 'txt', b'\x00\xff', True, (), (1,), (1, 2), ((1,),), [], [(2,)], {'a': 1}, {'k': (1,)}, {1: 'x', 'y': [1]}, INF, -INF,
               {'a': INF}, {'k': [-INF, (1,)]}, {INF: 1}, {1, 2}, {-INF}, set(), [{'a': INF}], 'LEAFDICT']
    return {
        'Plain': {'i': ints, 'f': floats, 's': strs, 'by': [b'', b'a', b'\x00\xff\'"'], 'b': [True, False], 'v': generic, 'l': lists,
                  't': tuples2, 'd': [{}, {'a': 1}, {'a': (1,), 'b': [1, 2]}, {'é': None}],
                  'dd': [{}, {'a': 1}, {'a': 1, 'b': 2, 'c': 3}, {'b': 2, 'a': 1}, {'a': 1, 'b': 3}, {'a': 1, 'c': 2}], 'ld': [[{'a': 1}, 3], [{'a': 1, 'b': 2}], [], [{'a': 1, 'b': 2}, 3]],
                  'child': ['LEAF0', 'LEAF1', 'LEAF2', 'LEAF3'],
                  'name': ['explicit', 'Plain99', "we'ird", 'Plain3_x', 'Plain2D', 'xPlain12', 'Plain1', 'Plain123456', 'Plain00012\n', '12', 'Plain00012 ', 'plain7', 'Plain12\n']},
        'Positional': {'i': ints, 's': strs[:5], 'v': generic, 'f': floats[:5], 'name': ['explicit']},
        'KwDefault': {'i': [0, 7, 5], 'v': generic[:10], 'name': ['n1', 'KwDefault5b']},
        'Nested': {'a': ['PLAIN0', 'PLAIN1', 'PLAIN2'], 'items': lists, 'v': generic[:12] + ['LEAF2', 'LEAF3', 'NEST0', 'NEST1'], 'name': ['top', 'Nested1.2']},
    }


def resolve(C, v):
    """symbolic nested objects -> fresh Parameterized instances"""
    if v == 'LEAFDICT':
        return {'leaf': C.Leaf(x=7), 'n': [C.Leaf(tag='in list in dict')]}          # nested objects inside a dict value
    if isinstance(v, str) and v.startswith('LEAF'):
        return [C.Leaf(), C.Leaf(x=2.5, tag="it's"), C.Leaf(x=-INF, name='named_leaf'), C.Leaf(x=4, name='Leaf3_conv')][int(v[4])]
    if isinstance(v, str) and v.startswith('NEST'):
        return [C.Nested(), C.Nested(a=C.Plain(child=C.Leaf(tag='deep'), name='Plain7b'), items=[C.Leaf(x=3)], v=C.Nested(v=(1,)))][int(v[4])]
    if isinstance(v, str) and v.startswith('PLAIN'):
        return [C.Plain(), C.Plain(i=3, s='q"', t=(1, (2,)), v=(5,)), C.Plain(child=C.Leaf(x=9), l=[(1,)], f=-2.0, name='inner')][int(v[5])]
    if isinstance(v, list):
        return [resolve(C, x) for x in v]
    return v


def combos(C):
    """states in which one nested object is reachable more than once (no cycle), or nested objects carry class-like explicit names"""
    L = C.Leaf(x=2.5, tag='shared')
    P = C.Plain(i=4, child=C.Leaf(x=8))
    L2 = C.Leaf(x=6, name='Leaf12_b')
    return {
        'same-leaf-in-two-params': ('Plain', dict(child=L, v=L)),
        'same-leaf-twice-in-list': ('Plain', dict(l=[L, L])),
        'same-leaf-param-and-list': ('Plain', dict(child=L, l=[1, L])),
        'same-plain-in-two-params': ('Nested', dict(a=P, v=P)),
        'same-plain-param-and-list': ('Nested', dict(a=P, items=[P, 2])),
        'same-leaf-at-two-depths': ('Nested', dict(a=C.Plain(child=L), v=L)),
        'same-leaf-in-tuple-and-dict': ('Plain', dict(v=(L, L))),
        'equal-distinct-leaves': ('Plain', dict(child=C.Leaf(x=2.5), v=C.Leaf(x=2.5))),
        'class-like-names-nested': ('Nested', dict(a=C.Plain(name='Plain3_x', child=L2), items=[L2], name='Nested7-small')),
        'auto-named-nested': ('Nested', dict(a=C.Plain(), items=[C.Leaf(), C.Leaf()], v=C.Nested())),
    }


def equal_vals(a, b, auto_ok=True):
    import param
    if isinstance(a, param.Parameterized) or isinstance(b, param.Parameterized):
        if type(a) is not type(b):
            return False
        for n in a.param:
            x, y = getattr(a, n), getattr(b, n)
            if n == 'name':
                pre = type(a).__name__
                import re
                # generated names are the class name followed by exactly five digits (anything else is a name somebody chose)
                if re.fullmatch(pre + '[0-9]{5}', x) and re.fullmatch(pre + '[0-9]{5}', y):
                    continue
            if not equal_vals(x, y):
                return False
        return True
    if type(a) is not type(b) and not (isinstance(a, (int, float)) and isinstance(b, (int, float)) and not isinstance(a, bool) and not isinstance(b, bool)):
        return False
    if isinstance(a, (list, tuple)):
        return len(a) == len(b) and all(equal_vals(x, y) for x, y in zip(a, b))
    if isinstance(a, dict):
        return a.keys() == b.keys() and all(equal_vals(a[k], b[k]) for k in a)
    if isinstance(a, (set, frozenset)):
        return a == b
    return a == b


class C20(Harness):
    pid = 'C20'
    level = 'exploration'
    kind = 'enum'
    technique = 'bounded-exhaustive enumeration of class shape x parameter x value states; the printed text is executed and the rebuilt object compared'
    rule = ('case = (class, parameter, value index) or (class, all-parameters combination); for each, both script_repr() and .param.pprint() '
            'texts are evaluated and the rebuilt object compared parameter by parameter (recursively for nested Parameterized); non-trivial = '
            'the state differs from the defaults')
    assumptions = ('NaN excluded (no equality); values are literals, '
                   'lists/tuples/dicts of literals, or nested Parameterized objects of importable classes',)

    def bounds(self, tier):
        return {'classes': 4}

    def cases(self, tier):
        import harness.c20_classes as C
        out = []
        vt = value_table(C)
        for cname, params in vt.items():
            for pname, vals in params.items():
                for vi in range(len(vals)):
                    out.append({'cls': cname, 'set': [[pname, vi]]})
            # several parameters at once: k-th value of every parameter
            for k in range(4):
                out.append({'cls': cname, 'set': [[p, k % len(v)] for p, v in params.items()]})
        for name in combos(C):
            out.append({'cls': combos(C)[name][0], 'combo': name, 'set': []})
            # the same state, printed after an earlier print of it was interrupted half-way (a value whose repr raises, then replaced by a literal)
            for exc in ('KeyboardInterrupt', 'ValueError'):
                out.append({'cls': combos(C)[name][0], 'combo': name, 'set': [], 'interrupted_by': exc})
        return out

    @staticmethod
    def reset_repr_guards(param):
        """the recursion guards of repr / pprint keep a module-lifetime set of "being printed" keys: a defect that leaks entries must not make
        later executions of the same worker depend on earlier ones"""
        P = param.parameterized.Parameters
        for fn in (param.Parameterized.__repr__, P.__dict__.get('_pprint'), getattr(P.__dict__.get('_pprint'), '__func__', None), P.__dict__.get('_repr_html_')):
            for cell in (getattr(fn, '__closure__', None) or ()):
                try:
                    v = cell.cell_contents
                except ValueError:
                    continue
                if isinstance(v, set):
                    v.clear()

    def run_case(self, case):
        import param
        import harness.c20_classes as C
        reset_globals()
        self.reset_repr_guards(param)
        vt = value_table(C)
        cls = getattr(C, case['cls'])
        if case.get('combo'):
            kwargs = combos(C)[case['combo']][1]
            key = dict(cls=case['cls'], params='+'.join(sorted(kwargs)), value=case['combo'])
        else:
            kwargs = {p: resolve(C, vt[case['cls']][p][vi]) for p, vi in case['set']}
            key = dict(cls=case['cls'], params='+'.join(p for p, _ in case['set']),
                       value=repr([vt[case['cls']][p][vi] for p, vi in case['set']])[:70])
        try:
            if case['cls'] == 'Positional':
                kw = dict(kwargs)
                obj = cls(kw.pop('i', 0), **kw)
            else:
                obj = cls(**kwargs)
        except Exception as e:
            return Result([V('harness-state-invalid', 'could not build state %r: %r' % (kwargs, e), **key)], outcome='x')
        vs = []
        if case.get('interrupted_by'):
            exc_type = {'KeyboardInterrupt': KeyboardInterrupt, 'ValueError': ValueError}[case['interrupted_by']]

            class Bomb:
                def __repr__(self):
                    raise exc_type('interrupted while printing')
            # the innermost nested object (or the object itself) temporarily holds the value that cannot be printed
            target = obj
            while True:
                inner = [getattr(target, n) for n in target.param if isinstance(getattr(target, n), param.Parameterized) and 'v' in getattr(target, n).param]
                if not inner:
                    break
                target = inner[0]
            saved = target.v
            target.v = Bomb()
            for fn in (lambda: param.script_repr(obj), lambda: obj.param.pprint(), lambda: repr(obj)):
                try:
                    out = fn()
                    vs.append(V('print-after-interruption', 'after an interrupted print the next print of the same object did not reach its (unprintable) value '
                                'but produced %r' % (out[-200:],), interrupted_by=case['interrupted_by'], **key))
                except BaseException as e:
                    if not isinstance(e, exc_type):
                        raise
            target.v = saved
            key['interrupted_by'] = case['interrupted_by']
        for mode in ('script_repr', 'pprint'):
            try:
                if mode == 'script_repr':
                    text = param.script_repr(obj)
                    tree = ast.parse(text)
                    ns = {}
                    exec(compile(ast.Module(tree.body[:-1], []), '<imports>', 'exec'), ns)
                    rebuilt = eval(compile(ast.Expression(tree.body[-1].value), '<expr>', 'eval'), ns)
                else:
                    text = obj.param.pprint()
                    ns = {k: v for k, v in vars(C).items() if not k.startswith('_')}
                    rebuilt = eval(text, ns)
            except Exception as e:
                vs.append(V('text-not-evaluable', '%s of %s(%s) is not evaluable: %r; text=%r' % (mode, case['cls'], key['value'], e, locals().get('text', '')[-300:]),
                            mode=mode, exc=type(e).__name__, **key))
                continue
            if not equal_vals(obj, rebuilt):
                diffs = [(n, getattr(obj, n), getattr(rebuilt, n, '<missing>')) for n in obj.param if n != 'name' and not equal_vals(getattr(obj, n), getattr(rebuilt, n, None))] \
                    if type(obj) is type(rebuilt) else [('class', type(obj).__name__, type(rebuilt).__name__)]
                if type(obj) is type(rebuilt) and not diffs:
                    diffs = [('name', obj.name, rebuilt.name)]
                vs.append(V('rebuilt-differs', '%s of %s: rebuilt object differs: %r; text=%r' % (mode, case['cls'], diffs[:3], text[-300:]), mode=mode, **key))
        return Result(vs, outcome=case['cls'], hits={'evaluated': 2}, nontrivial=True)


HARNESS = C20()
