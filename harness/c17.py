"""C17 — copies and pickles are faithful and independent.

Bounded-exhaustive enumeration: pre-copy history -> copy mechanism (deepcopy, pickle protocols) -> post-copy history applied to the
original or to the copy; oracle: equality right after the copy, no shared mutable state (identity walk), the other side's snapshot is
unchanged by every later operation, dependent methods fire exactly once on the side operated on."""
import copy
import itertools
import pickle

from mc.engine import Harness, Result, V
from mc.world import reset_globals

PRE = [['set', 'v', 5], ['mut_l'], ['pattr', 'v', 'bounds', [0, 50]], ['attach'], ['attach_set', 7], ['watch'], ['watch2prec'], ['extra'],
       ['update', 3, 4], ['selobj'], ['touch'], ['watch_unwatch'], ['slot_none'], ['watch_vw']]
POST = [['set', 'v', 6], ['update', 7, 8], ['mut_l'], ['set_l'], ['pattr', 'v', 'bounds', [0, 99]], ['leaf', 9], ['oselobj'], ['extra'], ['selobj'], ['set', 'v', 60], ['attach'], ['set', 'w', 9]]


def mechs(tier):
    m = [['deepcopy'], ['pickle', 2], ['pickle', 5]]
    if tier == 'thorough':
        m += [['pickle', 0], ['pickle', 1], ['pickle', 3], ['pickle', 4]]
    return m


class C17(Harness):
    pid = 'C17'
    level = 'model_checking'
    kind = 'enum'
    technique = ('exhaustive enumeration of pre-copy histories x copy mechanisms x post-copy histories on the original or the copy, executed on real '
                 'objects; oracle: snapshot equality, identity walk for shared mutable state, differential other-side-unchanged, exactly-once dependent methods')
    rule = ('state = (pre-copy history, mechanism, post-copy history with side); every case is executed from scratch; non-trivial = the post-copy '
            'history is non-empty; distinct by case')
    assumptions = ('classes are importable (module level); histories: sets, update, in-place mutation, per-instance Parameter edits (bounds, Selector objects), '
                   'sub-object attachment and leaf sets, user watchers bound to the instance (incl. precedences), ordinary attributes (incl. one in __slots__); '
                   'a subclass with a depends(\'sub.x\', watch=True) method is run over every pre-history that attaches the sub-object and all post-histories',)

    def bounds(self, tier):
        return {'pre_length': 2, 'post_length': 2, 'mechanisms': mechs(tier)}

    def cases(self, tier):
        out = []
        pres = [[]] + [[p] for p in PRE] + [[a, b] for a, b in itertools.permutations(PRE, 2) if tier == 'thorough' or (PRE.index(a) < PRE.index(b))]
        posts = [[]] + [[[s] + p] for s in ('orig', 'copy') for p in POST]
        posts += [[[s1] + p1, [s2] + p2] for s1 in ('orig', 'copy') for s2 in ('orig', 'copy') for p1 in POST[:7] for p2 in POST[:4]]
        for cls in ('Top', 'Slotted'):
            for pre in pres:
                if cls == 'Slotted' and len(pre) > 1:
                    continue
                for m in mechs(tier):
                    for post in (posts if cls == 'Top' else posts[:len(POST) * 2 + 1]):
                        out.append({'cls': cls, 'pre': pre, 'mech': m, 'post': post})
        # a dependency on a parameter of a sub-object that is not attached at copy time (never attached, or attached and detached again)
        for pre in ([], [['attach'], ['detach']], [['watch_unwatch']]):
            for m in mechs(tier):
                for side in ('orig', 'copy'):
                    out.append({'cls': 'TopSub', 'pre': pre, 'mech': m, 'post': [[side, 'attach'], [side, 'leaf', 9]]})
                    out.append({'cls': 'TopSub', 'pre': pre, 'mech': m, 'post': [[side, 'set', 'v', 6]]})
        # dependency on a parameter of a sub-object that is attached at copy time: every pre-history containing an attachment, all post-histories
        # (+ replacing / detaching the sub-object on one side after the copy)
        att = [[['attach']], [['attach_set', 7]], [['attach'], ['detach'], ['attach']]]
        att += [[['attach'], p] for p in PRE if p[0] not in ('attach', 'attach_set')] + [[p, ['attach']] for p in PRE if p[0] not in ('attach', 'attach_set')]
        sub_posts = posts + [[[s1, 'leaf', 9], [s2] + p2] for s1 in ('orig', 'copy') for s2 in ('orig', 'copy') for p2 in (['attach'], ['detach'], ['leaf', 4])]
        sub_posts += [[[s1] + p1, [s2, 'leaf', 9]] for s1 in ('orig', 'copy') for s2 in ('orig', 'copy') for p1 in (['attach'], ['detach'])]
        for pre in att:
            for m in mechs(tier):
                for post in sub_posts:
                    out.append({'cls': 'TopSub', 'pre': pre, 'mech': m, 'post': post})
        # the copy is taken while a batch / discard block is open on the original (after an assignment inside it): the copy is an object of
        # its own, outside any block, with nothing queued
        for during in ('batch', 'discard'):
            for pre in ([], [['watch']], [['watch_vw']]):
                for m in mechs(tier):
                    for post in posts[:len(POST) * 2 + 1]:
                        out.append({'cls': 'Top', 'pre': pre, 'mech': m, 'post': post, 'during': during})
        return out

    # ---------------------------------------------------------------
    def apply(self, C, o, op):
        k = op[0]
        if k == 'set':
            setattr(o, op[1], op[2])
        elif k == 'update':
            o.param.update(v=op[1], w=op[2])
        elif k == 'mut_l':
            o.l.append(99)
        elif k == 'set_l':
            o.l = [5, 5]
        elif k == 'pattr':
            setattr(o.param[op[1]], op[2], tuple(op[3]))
        elif k == 'attach':
            o.sub = C.Leaf(x=3)
        elif k == 'detach':
            o.sub = None
        elif k == 'watch_unwatch':
            o.param.unwatch(o.param.watch(o.user_cb2, ['w']))
        elif k == 'attach_set':
            o.sub = C.Leaf(x=3)
            o.sub.x = op[1]
            o.sub.tags.append('u')
        elif k == 'leaf':
            if o.sub is not None:
                o.sub.x = op[1]
                o.sub.tags.append('p')
        elif k == 'watch':
            o.param.watch(o.user_cb, ['v'])
        elif k == 'watch_vw':
            o.param.watch(o.user_cb3, ['v', 'w'])          # one user watcher on two parameters
        elif k == 'watch2prec':
            o.param.watch(o.user_cb2, ['v'], precedence=2)
            o.param.watch(o.user_cb, ['v'], precedence=1)
        elif k == 'extra':
            o.extra.append(1)
            if hasattr(type(o), 'slot_attr') and o.slot_attr is not None:
                o.slot_attr.append('x')
        elif k == 'selobj':
            o.param.sel.objects['mid'] = len(o.param.sel.objects) + 10
        elif k == 'oselobj':
            o.param.osel.objects['mid'] = len(o.param.osel.objects) + 20
        elif k == 'slot_none':
            if hasattr(type(o), 'slot_attr'):
                o.slot_attr = None          # an occupied slot holding None
        elif k == 'touch':
            o.param.sel
            o.param.l
        else:
            raise AssertionError(op)

    def snapshot(self, o):
        s = {'values': {n: repr(v) for n, v in o.param.values().items() if n not in ('name', 'sub')},
             'sub': None if o.sub is None else (repr(o.sub.x), repr(o.sub.tags)),
             'extra': repr(o.extra), 'calls': repr(o.calls),
             'slot': repr(getattr(o, 'slot_attr', '<unset>')),
             'pattrs': {n: (repr(getattr(p, 'bounds', None)), repr(list(getattr(p, '_objects', []))), repr(dict(getattr(p, 'names', {}) or {})), p.constant)
                        for n, p in o._param__private.params.items()},
             'name': o.name,
             'class_level': {n: (repr(list(type(o).param[n]._objects)), repr(dict(type(o).param[n].names))) for n in ('sel', 'osel')}}
        return s

    def shared(self, a, b):
        """names of mutable state shared by identity"""
        out = []
        if a.l is b.l:
            out.append('l')
        if a.extra is b.extra:
            out.append('extra')
        if a.calls is b.calls:
            out.append('calls')
        if a.sub is not None and a.sub is b.sub:
            out.append('sub')
        if a.sub is not None and b.sub is not None and a.sub.tags is b.sub.tags:
            out.append('sub.tags')
        if a._param__private is b._param__private or a._param__private.values is b._param__private.values:
            out.append('_param__private')
        for n, p in a._param__private.params.items():
            q = b._param__private.params.get(n)
            if q is p:
                out.append('param:' + n)
            elif q is not None:
                for slot in ('_objects', 'names'):
                    x, y = getattr(p, slot, None), getattr(q, slot, None)
                    if x is not None and x is y and isinstance(x, (list, dict)):
                        out.append('param:%s.%s' % (n, slot))
        if getattr(a, 'slot_attr', None) is not None and getattr(a, 'slot_attr', None) is getattr(b, 'slot_attr', 0):
            out.append('slot_attr')
        return out

    def run_case(self, case):
        import harness.c17_classes as C
        reset_globals()
        C.reset_classes()
        vs = []
        key = dict(cls=case['cls'], mech='%s%s' % (case['mech'][0], case['mech'][1] if len(case['mech']) > 1 else ''))
        if case.get('pinned'):
            key['pinned'] = case['pinned']
        ctx = 'case %r' % ({k: v for k, v in case.items()},)
        o = getattr(C, case['cls'])()
        for op in case['pre']:
            self.apply(C, o, op)
        cm = None
        if case.get('during'):
            import param
            key['during'] = case['during']
            cm = {'batch': param.parameterized.batch_call_watchers, 'discard': param.parameterized.discard_events}[case['during']](o)
            cm.__enter__()
            o.v = 4
        try:
            if case['mech'][0] == 'deepcopy':
                c = copy.deepcopy(o)
            else:
                c = pickle.loads(pickle.dumps(o, protocol=case['mech'][1]))
        except Exception as e:
            return Result([V('copy-raises', '%s: %s raised %r' % (ctx, case['mech'], e), exc=type(e).__name__, **key)], outcome='raises')
        so, sc = self.snapshot(o), self.snapshot(c)
        if cm is not None:
            cm.__exit__(None, None, None)
        if so != sc:
            diff = [k for k in so if so[k] != sc[k]]
            vs.append(V('copy-not-equal', '%s: right after the copy these differ: %r (original %r, copy %r)' % (ctx, diff, {k: so[k] for k in diff}, {k: sc[k] for k in diff}),
                        what=','.join(diff), **key))
        sh = self.shared(o, c)
        if sh:
            vs.append(V('shared-mutable-state', '%s: shared by identity between original and copy: %r' % (ctx, sh), what=','.join(sh), **key))
        if vs:
            return Result(vs, outcome='bad-copy')
        for step in case['post']:
            side, op = step[0], step[1:]
            S, other = (o, c) if side == 'orig' else (c, o)
            before_other = self.snapshot(other)
            ncalls = len(S.calls)
            vw_before = (S.v, S.w)
            l_before = list(S.l)
            exc = None
            try:
                self.apply(C, S, op)
            except ValueError as e:
                exc = e
            except Exception as e:
                vs.append(V('post-op-raises', '%s: %r on %s raised %r' % (ctx, op, side, e), op=op[0], exc=type(e).__name__, **key))
                break
            # the bounds in force on this side decide acceptance
            if op[0] == 'set' and op[1] == 'v':
                hi = S.param.v.bounds[1]
                if (op[2] <= hi) != (exc is None):
                    vs.append(V('own-constraints', '%s: %s.v = %r with own bounds %r: exception %r' % (ctx, side, op[2], S.param.v.bounds, exc), **key))
                    break
            elif exc is not None:
                vs.append(V('post-op-raises', '%s: %r on %s raised %r' % (ctx, op, side, exc), op=op[0], **key))
                break
            after_other = self.snapshot(other)
            if after_other != before_other:
                diff = [k for k in before_other if before_other[k] != after_other[k]]
                vs.append(V('other-side-changed', '%s: %r on %s changed the other side: %r (%r -> %r)' % (
                    ctx, op, side, diff, {k: before_other[k] for k in diff}, {k: after_other[k] for k in diff}), op=op[0], what=','.join(diff), **key))
                break
            new = S.calls[ncalls:]
            dep = [x for x in new if x[0] in ('on_vw', 'on_l', 'on_subx')]
            exp = 0
            if op[0] in ('set', 'update') and exc is None and (S.v, S.w) != vw_before:
                exp = 1
            if op[0] == 'set_l' and list(S.l) != l_before:
                exp = 1
            if op[0] == 'leaf' and case['cls'] == 'TopSub' and S.sub is not None:
                exp = 1
            if op[0] in ('attach', 'detach') and case['cls'] == 'TopSub':
                if len(dep) > 1:
                    vs.append(V('dependent-method-count', '%s: attaching a sub-object invoked dependent methods %r' % (ctx, dep), op=op[0], got=len(dep), **key))
                    break
            elif len(dep) != exp:
                vs.append(V('dependent-method-count', '%s: %r on %s invoked dependent methods %r, expected exactly %d call(s)' % (ctx, op, side, dep, exp),
                            op=op[0], got=len(dep), **key))
                break
            # a user watcher on two parameters stays one watcher on the copy: one call per operation, with an event per changed parameter
            if ['watch_vw'] in [list(p) for p in case['pre']] and op[0] in ('set', 'update') and exc is None:
                got3 = [x for x in new if x[0] == 'user_cb3']
                want3 = [('user_cb3', tuple(sorted(n for n, a, b in (('v', S.v, vw_before[0]), ('w', S.w, vw_before[1])) if a != b)))] if (S.v, S.w) != vw_before else []
                if got3 != want3:
                    vs.append(V('user-watchers', '%s: %r on %s: the two-parameter user watcher was called %r, expected %r' % (ctx, op, side, got3, want3), op=op[0], multi=True, **key))
                    break
            # user watchers: bound to this side, in precedence order
            users = [x[0] for x in new if x[0].startswith('user_cb') and x[0] != 'user_cb3']
            if op[0] == 'set' and exc is None and S.v != vw_before[0]:
                want = []
                flat = [tuple(p) for p in case['pre']]
                if ('watch2prec',) in flat:
                    want += ['user_cb', 'user_cb2']
                if ('watch',) in flat:
                    want = sorted(want + ['user_cb'], key=lambda n: 0) if not want else (['user_cb'] + want if flat.index(('watch',)) < flat.index(('watch2prec',)) else want[:1] + ['user_cb'] + want[1:])
                if ('watch2prec',) in flat and ('watch',) in flat:
                    # precedences: watch -> 0, watch2prec -> user_cb2: 2, user_cb: 1
                    want = ['user_cb', 'user_cb', 'user_cb2']
                if users != want:
                    vs.append(V('user-watchers', '%s: %r on %s ran user watchers %r, expected %r (bound to this side, ascending precedence)' % (ctx, op, side, users, want),
                                op=op[0], **key))
                    break
        return Result(vs, outcome='ok' if not vs else 'bad', nontrivial=bool(case['post']))


HARNESS = C17()
