"""C10 — the latest assignment wins under every asynchronous completion order.

Stateless schedule exploration on a hand-stepped virtual asyncio loop: for every program of <= N assignments (coroutine function,
async generator, bound coroutine with a dependency, plain value, dependency update) every schedule of {perform the next assignment,
complete a pending future, run a single ready callback} within a deviation bound is executed on a fresh loop."""
import itertools

from mc.engine import Harness, Result, V
from mc.world import reset_globals
from mc.vloop import VLoop


class Run:
    """one execution: replays a schedule (list of actions) on a fresh world"""

    def __init__(self, program, shared_fn, ctor_first=False):
        import param
        self.ctor_first = ctor_first
        reset_globals()
        self.param = param
        self.program = program
        self.loop = VLoop().install()
        self.futs = {}           # fid -> future
        self.order = []          # creation order of fids
        self.next = 0            # next assignment index
        self.seen = []           # values delivered to a watcher of p
        self.assigned_at = []    # len(seen) when assignment k was made

        class S(param.Parameterized):
            s = param.Parameter(default=0)

        class T(param.Parameterized):
            p = param.Parameter(default=('init',), allow_refs=True)

        self.S, self.Tcls = S(), T
        self.S2 = S()
        self.T = None
        if not ctor_first:
            self.T = T()
            self.T.param.watch(self.on_p, 'p')
        self.shared = None
        if shared_fn:
            run = self

            async def shared():
                k = run.current_k
                return ('v', k, await run.fut(('c', k)))
            self.shared = shared

    def on_p(self, e):
        self.seen.append(e.new)
        if isinstance(e.new, tuple) and e.new[0] == 'G' and e.new[2] == 0:
            # a watcher answering the first value of an overridable generator with a plain assignment: that assignment is the latest one
            self.T.p = ('w', e.new[1])

    def fut(self, fid):
        f = self.loop.create_future()
        self.futs[fid] = f
        self.order.append(fid)
        return f

    def assign(self):
        k = self.next
        kind = self.program[k]
        self.next += 1
        if kind != 'u':
            self.current_k = k          # (read by the shared coroutine function when it starts: the index of the assignment it belongs to)
        self.assigned_at.append(len(self.seen))
        run = self
        param = self.param
        def put(value):
            if self.T is None:
                # the first assignment of the program is made through the constructor
                self.T = self.Tcls(p=value)
                self.T.param.watch(self.on_p, 'p')
            else:
                self.T.p = value
        if kind == 'p':
            put(('p', k))
        elif kind == 'c':
            if self.shared is not None:
                put(self.shared)
            else:
                async def coro():
                    return ('v', k, await run.fut(('c', k)))
                put(coro)
        elif kind == 'g':
            async def agen():
                await run.fut(('g', k, 0))
                yield ('g', k, 0)
                await run.fut(('g', k, 1))
                yield ('g', k, 1)
            put(agen)
        elif kind == 'b':
            calls = {'n': 0}

            async def bound(s):
                n = calls['n']
                calls['n'] += 1
                await run.fut(('b', k, n))
                return ('b', k, s)
            put(param.bind(bound, self.S.param.s))
        elif kind == 'G':
            async def agen2():
                await run.fut(('G', k, 0))
                yield ('G', k, 0)
                await run.fut(('G', k, 1))
                yield ('G', k, 1)
            put(agen2)
        elif kind == 'r':
            # a synchronous reference (must supersede whatever is pending, like a plain value)
            self.S2.s = ('r', k)
            put(self.S2.param.s)
        elif kind == 'u':
            self.S.s = self.S.s + 1

    def pending(self):
        return [fid for fid in self.order if not self.futs[fid].done()]

    def enabled(self, budget_left):
        acts = []
        ready = self.loop.ready() > 0
        if self.next < len(self.program):
            acts.append(['A'])
            if budget_left > 0:
                acts.append(['A', 'nodrain'])
        for fid in self.pending():
            acts.append(['C', list(fid)])
            if budget_left > 0:
                acts.append(['C', list(fid), 'nodrain'])
        if ready:
            acts.append(['D'])
            if budget_left > 0:
                acts.append(['S'])
        return acts

    def do(self, act):
        k = act[0]
        if k == 'A':
            self.assign()
        elif k == 'C':
            fid = tuple(act[1])
            self.futs[fid].set_result(None)
        elif k == 'S':
            self.loop.step()
            return
        elif k == 'D':
            self.loop.drain()
            return
        if 'nodrain' not in act:
            self.loop.drain()

    def close(self):
        self.loop.uninstall()


class RxRun(Run):
    """a root piped through a coroutine / async generator; program kinds: U = update the root, R = read the expression"""

    def __init__(self, program, pipe, watch):
        import param
        reset_globals()
        self.param = param
        self.program = program
        self.loop = VLoop().install()
        self.futs, self.order, self.next, self.seen, self.assigned_at = {}, [], 0, [], []
        self.root_val = 0
        self.extra_val = 0
        self.calls = 0
        run = self
        if pipe == 'coro':
            async def f(x, e):
                n = run.calls
                run.calls += 1
                await run.fut(('r', n))
                return ('r', x, e)
        else:
            async def f(x, e):
                n = run.calls
                run.calls += 1
                await run.fut(('r', n, 0))
                yield ('r', x, e, 0)
                await run.fut(('r', n, 1))
                yield ('r', x, e, 1)
        self.src = param.rx(0)
        self.extra = param.rx(0)          # a second input, passed to the piped function as an extra argument
        self.expr = self.src.rx.pipe(f, self.extra)
        if watch:
            self.expr.rx.watch(lambda v: self.seen.append(v))
        self.reads = []
        self.stale = None

    def assign(self):
        k = self.next
        kind = self.program[k]
        self.next += 1
        if kind == 'U':
            self.root_val += 1
            self.src.rx.value = self.root_val
        elif kind == 'E':
            self.extra_val += 1
            self.extra.rx.value = self.extra_val
        else:
            self.reads.append(self.expr.rx.value)

    def do(self, act):
        # what the watcher is handed while an update / read is being performed is the value the expression holds at that
        # moment (possibly the previous result, re-delivered); what arrives in any other step is a completion being applied
        before = len(self.seen)
        super().do(act)
        if act[0] != 'A' or 'nodrain' in act:
            pass
        if act[0] != 'A':
            for v in self.seen[before:]:
                if isinstance(v, tuple) and v[0] == 'r' and (v[1] < self.root_val or v[2] < self.extra_val) and self.stale is None:
                    self.stale = (v, (self.root_val, self.extra_val), act)


def cost(act):
    return 1 if ('nodrain' in act or act[0] == 'S') else 0


def tag_index(v):
    """assignment index a delivered value belongs to (None for the initial value)"""
    if isinstance(v, tuple) and len(v) >= 2 and v[0] in ('v', 'g', 'b', 'p', 'r', 'G', 'w'):
        return v[1]
    return None


class C10(Harness):
    pid = 'C10'
    level = 'model_checking'
    kind = 'enum'
    technique = ('stateless exploration of all schedules (assignment order fixed, every completion order of the pending awaitables, single-step and '
                 'no-drain deviations up to a bound) of the real asynchronous reference code on a hand-stepped virtual asyncio loop')
    rule = ('case = program of <= N assignments; for it every maximal schedule within the deviation bound is executed from scratch on a fresh virtual loop; '
            'states = schedule prefixes, transitions = scheduler actions; non-trivial = programs with at least one awaitable')
    assumptions = ('the harness owns the event loop and the completion order of hand-made futures; synchronous generators (which param runs through '
                   'asyncio.to_thread) are outside the alphabet; deviation = performing an assignment or completing a future without draining the loop, '
                   'or running a single ready callback',)

    def bounds(self, tier):
        return {'max_assignments': 3 if tier == 'quick' else 4, 'deviations': 2 if tier == 'quick' else 3}

    def cases(self, tier):
        out = []
        B = 2 if tier == 'quick' else 3
        kinds = ['c', 'g', 'p', 'b', 'u', 'r', 'G']
        for n in ((1, 2, 3) if tier == 'quick' else (1, 2, 3, 4)):
            for prog in itertools.product(kinds, repeat=n):
                if 'u' in prog and 'b' not in prog[:prog.index('u')]:
                    continue
                if not any(k in prog for k in 'cgbG'):
                    continue
                if n >= (3 if tier == 'quick' else 4) and sum(k in 'rG' for k in prog) > 1:
                    continue          # (at most one of the two newer kinds in the longest programs of the tier)
                out.append({'program': list(prog), 'shared_fn': False, 'budget': B})
                if prog[0] in 'cgbG' and n <= 3:
                    out.append({'program': list(prog), 'shared_fn': False, 'budget': max(1, B - 1), 'ctor_first': True})
                if prog.count('c') >= 2:
                    out.append({'program': list(prog), 'shared_fn': True, 'budget': B})
        for n in ((1, 2, 3) if tier == 'quick' else (1, 2, 3, 4)):
            for prog in itertools.product('URE', repeat=n):
                if 'U' not in prog and 'E' not in prog:
                    continue
                if 'E' in prog and n > 3:
                    continue
                for pipe in ('coro', 'agen'):
                    for watch in (True, False):
                        # (the async-generator pipeline with three steps has by far the largest schedule tree: one deviation less)
                        budget = B if (n <= 2 or pipe == 'coro') else B - 1
                        if n >= 4 and watch:
                            budget -= 1          # (watched pipelines of four steps have schedule trees of > 10^5 nodes per program at the full budget)
                        out.append({'rx': True, 'program': list(prog), 'pipe': pipe, 'watch': watch, 'budget': budget})
        out += [{'special': 'norefs', 'program': ['c']}, {'special': 'constant', 'program': ['c']}]
        return out

    def expected_final(self, program):
        last = None
        s = 0
        for k, kind in enumerate(program):
            if kind == 'u':
                s += 1
                if last is not None and last[0] == 'b':
                    last = ('b', last[1], s)
            elif kind == 'p':
                last = ('p', k)
            elif kind == 'c':
                last = ('v', k, None)
            elif kind == 'g':
                last = ('g', k, 1)
            elif kind == 'b':
                last = ('b', k, s)
            elif kind == 'r':
                last = ('r', k)
            elif kind == 'G':
                last = ('w', k)       # the watcher's plain answer to the first value ends the generator's reign
        return last

    def run_special(self, case):
        """two constructor situations outside the main alphabet: (norefs) an async function given to a parameter that does not take
        references is a plain value: it is neither called nor allowed to overwrite the parameter later; (constant) an async reference given
        to a constant parameter through the constructor delivers its result like a synchronous one"""
        import warnings
        import param
        reset_globals()
        loop = VLoop().install()
        vs = []
        key = dict(program='special:' + case['special'])
        try:
            futs = []

            async def coro():
                f = loop.create_future()
                futs.append(f)
                await f
                return 'result'
            if case['special'] == 'norefs':
                N = type('N', (param.Parameterized,), {'q': param.Parameter(default=0)})
                with warnings.catch_warnings():
                    warnings.simplefilter('ignore')
                    n = N(q=coro)
                loop.drain()
                for f in futs:
                    f.set_result(None)
                loop.drain()
                if n.q is not coro or futs or n._param__private.async_refs:
                    vs.append(V('latest-wins', 'a parameter that does not take references was given an async function through the constructor: it was called %d time(s), '
                                'the parameter now holds %r' % (len(futs), n.q), **key))
            else:
                K = type('K', (param.Parameterized,), {'c': param.Parameter(default=0, constant=True, allow_refs=True)})
                k = K(c=coro)
                loop.drain()
                for f in futs:
                    f.set_result(None)
                loop.drain()
                if k.c != 'result' or loop.unhandled or k._param__private.async_refs:
                    vs.append(V('latest-wins', 'an async reference given to a constant parameter through the constructor completed, the parameter holds %r (loop errors: %r)' % (
                        k.c, [str(u.get('exception')) for u in loop.unhandled]), **key))
        finally:
            loop.uninstall()
        res = Result(vs, outcome='special', hits={'schedules': 1, 'nodes': 1}, nontrivial=True)
        res['n'] = 1
        return res

    def run_case(self, case):
        if case.get('special'):
            return self.run_special(case)
        if case.get('rx'):
            return self.run_rx(case)
        program, shared, B = case['program'], case['shared_fn'], case['budget']
        vs = []
        stats = {'schedules': 0, 'nodes': 0}
        exp = self.expected_final(program)
        key = dict(program=''.join(program), shared=shared, ctor_first=case.get('ctor_first', False))

        def replay(sched):
            r = Run(program, shared, case.get('ctor_first', False))
            try:
                for a in sched:
                    r.do(a)
            except Exception:
                r.close()
                raise
            return r

        def check_prefix(r, sched):
            """safety along the run: once assignment j was made, no value of an earlier assignment is applied"""
            for j, pos in enumerate(r.assigned_at):
                for v in r.seen[pos:]:
                    ti = tag_index(v)
                    if ti is not None and ti < j and program[j] != 'u':
                        return V('superseded-result-applied', 'program %s schedule %r: value %r of assignment %d was applied after assignment %d (%s) had been made; '
                                 'values seen: %r' % (program, sched, v, ti, j, program[j], r.seen), later=program[j], earlier=program[ti], **key)
            for i, v in enumerate(r.seen):
                if isinstance(v, tuple) and v[0] == 'w':
                    late = [x for x in r.seen[i + 1:] if isinstance(x, tuple) and x[0] == 'G' and x[1] == v[1]]
                    if late:
                        return V('superseded-result-applied', 'program %s schedule %r: the generator of assignment %d delivered %r after a watcher had overridden it with '
                                 'the plain value %r; values seen: %r' % (program, sched, v[1], late[0], v, r.seen), later='w', earlier='G', **key)
            return None

        stack = [([], 0)]
        while stack and len(vs) < 3:
            sched, used = stack.pop()
            stats['nodes'] += 1
            try:
                r = replay(sched)
            except Exception as e:
                vs.append(V('schedule-raises', 'program %s schedule %r raised %r' % (program, sched, e), exc=type(e).__name__, **key))
                continue
            try:
                bad = check_prefix(r, sched)
                if bad:
                    vs.append(bad)
                    continue
                acts = r.enabled(B - used)
                if not acts:
                    stats['schedules'] += 1
                    got = r.T.p
                    ok = (got[:2] == exp[:2]) if exp[0] == 'v' else (got == exp)
                    if not ok:
                        vs.append(V('latest-wins', 'program %s schedule %r: all awaitables completed, the parameter holds %r, the latest assignment\'s result is %r; '
                                    'values seen: %r' % (program, sched, got, exp, r.seen), last=exp[0], **key))
                    priv = r.T._param__private
                    if priv.async_refs:
                        vs.append(V('task-left-registered', 'program %s schedule %r: async_refs still holds %r at quiescence' % (program, sched, list(priv.async_refs)), **key))
                    if priv.syncing:
                        vs.append(V('syncing-left-set', 'program %s schedule %r: syncing still holds %r at quiescence' % (program, sched, sorted(priv.syncing)), **key))
                    continue
                for a in reversed(acts):
                    stack.append((sched + [a], used + cost(a)))
            finally:
                r.close()
        res = Result(vs[:3], outcome=''.join(program), hits={'schedules': stats['schedules'], 'nodes': stats['nodes']}, nontrivial=True)
        res['n'] = max(1, stats['nodes'])
        res['nt_extra'] = max(0, stats['schedules'] - 1)
        return res


    def run_rx(self, case):
        program, B = case['program'], case['budget']
        vs = []
        stats = {'schedules': 0, 'nodes': 0}
        key = dict(program='rx:' + ''.join(program), pipe=case['pipe'], watch=case['watch'])
        final = ('r', program.count('U'), program.count('E')) if case['pipe'] == 'coro' else ('r', program.count('U'), program.count('E'), 1)
        stack = [([], 0)]
        while stack and len(vs) < 3:
            sched, used = stack.pop()
            stats['nodes'] += 1
            r = RxRun(program, case['pipe'], case['watch'])
            try:
                try:
                    for a in sched:
                        r.do(a)
                except Exception as e:
                    vs.append(V('schedule-raises', 'rx program %s schedule %r raised %r' % (program, sched, e), exc=type(e).__name__, **key))
                    continue
                # safety: the completion of a superseded awaitable is never applied after a newer root update
                if r.stale is not None:
                    vs.append(V('superseded-result-applied', 'rx program %s schedule %r: during %r the watcher received %r although the inputs (root, extra argument) had already been updated to %r; seen: %r' % (
                        program, sched, r.stale[2], r.stale[0], r.stale[1], r.seen), **key))
                    continue
                acts = r.enabled(B - used)
                if not acts:
                    stats['schedules'] += 1
                    # settle: read, complete whatever the lazy evaluation started, read again
                    for _ in range(3):
                        r.expr.rx.value
                        r.loop.drain()
                        for fid in r.pending():
                            r.futs[fid].set_result(None)
                            r.loop.drain()
                    got = r.expr.rx.value
                    if got != final:
                        vs.append(V('latest-wins', 'rx program %s schedule %r: after everything completed the expression evaluates to %r, expected %r; watcher saw %r' % (
                            program, sched, got, final, r.seen), **key))
                    continue
                for a in reversed(acts):
                    stack.append((sched + [a], used + cost(a)))
            finally:
                r.close()
        res = Result(vs[:3], outcome='rx' + ''.join(program), hits={'schedules': stats['schedules'], 'nodes': stats['nodes']}, nontrivial=True)
        res['n'] = max(1, stats['nodes'])
        res['nt_extra'] = max(0, stats['schedules'] - 1)
        return res


HARNESS = C10()
