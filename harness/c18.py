"""C18 — a Selector's objects list, names and range stay consistent under mutation.

Explicit-state BFS over mutation histories of the real ListProxy/Selector, in
lock-step with a plain Python list (list-declared) or insertion-ordered dict
(dict-declared).  After every step the list view, items(), names, get_range()
and the accepted values are compared with the model.
"""
import collections

from mc.engine import Harness, Result, V
from mc.heapfp import try_fingerprint

INIT = ['alpha', 'beta', 7]
NEW = [(1, 2), 2.5, 'epsilon']
POOL = INIT + NEW
NAMES0 = ['ka', 'kb', 'k7']
NEWKEYS = ['kn1', 'kn2']


NAN = float('nan')        # an object that is not equal to itself (one singleton: the stored object is always passed by identity)


def enc(o):
    if o is NAN:
        return 'NAN'
    return list(o) if isinstance(o, tuple) else o


def dec(o):
    """decode an operand into a *fresh* object equal to, but (for str/tuple/float) not identical with,
    the one stored in the selector - users pass equal values, not the stored object itself."""
    if isinstance(o, list):
        return tuple(o)
    if o == 'NAN' or o is NAN:
        return NAN
    if isinstance(o, str) and len(o) > 1:
        return (o + ' ')[:-1]
    if isinstance(o, float):
        return float(repr(o))
    return o


def keyname(o):
    return str(o)


class C18(Harness):
    pid = 'C18'
    level = 'model_checking'
    kind = 'bfs'
    technique = 'explicit-state BFS over mutation histories of the real Selector/ListProxy vs. a list/dict reference model'
    rule = ('state = (config, canonical model objects, structural heap fingerprint of class+instance); '
            'transition = one objects-mutation or value assignment replayed on a fresh class; '
            'non-trivial = reached state distinct by fingerprint')
    assumptions = ('objects are unique and hashable; operations are style-consistent (list ops on list-declared, '
                   'dict ops on dict-declared selectors)',)

    def bounds(self, tier):
        return {'depth': 3 if tier == 'quick' else 5, 'initial_objects': 3, 'new_objects': 3,
                'configs': len(self.configs(tier))}

    def configs(self, tier):
        out = []
        for ptype in ('Selector', 'ListSelector'):
            for style in ('list', 'dict'):
                for level in ('instance', 'class'):
                    out.append({'ptype': ptype, 'style': style, 'level': level})
                # the same proxy object kept across operations / None among the objects
                out.append({'ptype': ptype, 'style': style, 'level': 'instance', 'reuse': True})
                if ptype == 'Selector':
                    out.append({'ptype': ptype, 'style': style, 'level': 'instance', 'with_none': True})
                    out.append({'ptype': ptype, 'style': style, 'level': 'instance', 'with_nan': True})
        # an open (check_on_set=False) dict-declared Selector: assigned values that are not among the objects are added without a name,
        # so the list and the name mapping are no longer position-aligned
        out.append({'ptype': 'Selector', 'style': 'dict', 'level': 'instance', 'open': True})
        return out

    def depth(self, tier, config):
        return 3 if tier == 'quick' else 5

    # ---------- model
    def enabled(self, cfg, model):
        ops = []
        objs = list(model.values()) if cfg['style'] == 'dict' else list(model)
        fresh = [o for o in NEW if o not in objs]
        if cfg['style'] == 'list':
            for x in fresh[:2]:
                ops.append(['append', enc(x)])
            if fresh:
                x = fresh[0]
                for i in sorted({0, 1, len(objs)}):
                    if i <= len(objs):
                        ops.append(['insert', i, enc(x)])
                ops.append(['extend', [enc(y) for y in fresh[:2]]])
                ops.append(['extend_gen', [enc(y) for y in fresh[:2]]])        # the same through a one-shot iterator
                for i in (0, -1):
                    if objs:
                        ops.append(['setitem', i, enc(x)])
            if objs:
                ops.append(['pop'])
                ops.append(['pop', 0])
                if len(objs) > 1:
                    ops.append(['pop', 1])
                ops.append(['remove', enc(objs[0])])
                ops.append(['remove_same', enc(objs[0])])
                if len(objs) > 1:
                    ops.append(['remove', enc(objs[-1])])
            ops.append(['clear'])
            ops.append(['replace', [enc(y) for y in (fresh[:1] + objs[:1])]])
            ops.append(['replace', []])
            ops.append(['replace_self'])          # p.objects = p.objects (what `p.objects += [...]` does first)
        else:
            keys = [k for k in model if isinstance(k, str)]          # (un-named entries of an open Selector have a tuple key in the model)
            if fresh:
                x = fresh[0]
                for k in NEWKEYS:
                    if k not in model:
                        ops.append(['setkey', k, enc(x)])
                        break
                if keys:
                    ops.append(['setkey', keys[0], enc(x)])
                    ops.append(['setkey', keys[-1], enc(x)])
                    if len(keys) > 2:
                        ops.append(['setkey', keys[1], enc(x)])
                nk = [k for k in NEWKEYS if k not in model]
                if nk and len(fresh) > 1 and keys:
                    ops.append(['update', [[keys[0], enc(fresh[0])], [nk[0], enc(fresh[1])]]])
                if nk and len(fresh) > 1:
                    # one call carrying the same new key twice (a sequence of pairs): the later pair wins, as for a dict
                    ops.append(['update', [[nk[0], enc(fresh[0])], [nk[0], enc(fresh[1])]], 'pairs'])
                if nk:
                    # an update that fails part-way (malformed trailing element): what was applied before it shows in every view alike
                    ops.append(['update', [[nk[0], enc(x)]], 'pairs', 'bad'])
                if nk:
                    ops.append(['updatekw', nk[-1], enc(x)])
            if keys:
                ops.append(['pop'])
                ops.append(['pop', 0])
                if len(keys) > 1:
                    ops.append(['pop', -2])
                ops.append(['popkey', keys[0]])
                ops.append(['popdefault', 'no-such-key', enc(objs[0])])       # dict.pop(key, default) for a missing key: nothing is removed
                if len(keys) > 1:
                    ops.append(['popkey', keys[-1]])
                ops.append(['remove', enc(objs[0])])
                ops.append(['remove_same', enc(objs[0])])
                if len(objs) > 1:
                    ops.append(['remove', enc(objs[-1])])
            ops.append(['clear'])
            nk = [k for k in NEWKEYS if k not in model] or NEWKEYS
            first = (fresh + objs)[0]
            ops.append(['replace', [[nk[0], enc(first)]] + ([[keys[0], enc(objs[0])]] if keys and objs[0] is not first and objs[0] != first else [])])
        for v in POOL[:2] + NEW[:1]:
            if cfg.get('open') and str(v) in model:
                continue          # (an un-named entry whose generated name would collide with an existing key: outside "unique objects")
            ops.append(['assign', enc(v)])
        return ops

    def model_step(self, cfg, model, op):
        """returns (new model, expected return value or _NORET, mutates objects?)"""
        kind = op[0]
        if cfg['style'] == 'list':
            m = list(model)
            ret = None
            if kind == 'append':
                m.append(dec(op[1]))
            elif kind == 'insert':
                m.insert(op[1], dec(op[2]))
            elif kind in ('extend', 'extend_gen'):
                m.extend(dec(x) for x in op[1])
            elif kind == 'replace_self':
                pass
            elif kind == 'setitem':
                m[op[1]] = dec(op[2])
            elif kind == 'pop':
                ret = m.pop(*op[1:])
            elif kind in ('remove', 'remove_same'):
                m.remove(dec(op[1]))
            elif kind == 'clear':
                m.clear()
            elif kind == 'replace':
                m = [dec(x) for x in op[1]]
            elif kind == 'assign':
                return m, None, False
            return m, ret, True
        m = collections.OrderedDict(model)
        ret = None
        if cfg.get('open') and kind in ('setkey', 'update', 'updatekw') and m and not any(isinstance(k, str) for k in m):
            # no named entry left: a key assignment first names what is there (as for a list-declared Selector)
            m = collections.OrderedDict((k[1], v) for k, v in m.items())
        if kind == 'setkey':
            m[op[1]] = dec(op[2])
        elif kind == 'update':
            m.update([(k, dec(v)) for k, v in op[1]])
        elif kind == 'updatekw':
            m.update(**{op[1]: dec(op[2])})
        elif kind == 'popdefault':
            ret = dec(op[2])
        elif kind == 'popkey':
            ret = m.pop(op[1])
        elif kind == 'pop':
            k = list(m)[op[1] if len(op) > 1 else -1]
            ret = m.pop(k)
        elif kind in ('remove', 'remove_same'):
            o = dec(op[1])
            for k in [k for k, v in m.items() if v is o or v == o]:
                del m[k]
        elif kind == 'clear':
            m.clear()
        elif kind == 'replace':
            m = collections.OrderedDict((k, dec(v)) for k, v in op[1])
        elif kind == 'assign':
            v = dec(op[1])
            if cfg.get('open') and v not in list(m.values()):
                m[('~', str(v))] = v          # added to the objects, un-named, at the end
                return m, None, True
            return m, None, False
        return m, ret, True

    # ---------- implementation
    def fresh(self, cfg):
        import param
        from mc.world import reset_globals
        reset_globals()
        ptype = getattr(param, cfg['ptype'])
        init = [None if (cfg.get('with_none') and x == 'beta') else (NAN if (cfg.get('with_nan') and x == 'beta') else x) for x in INIT]
        if cfg['style'] == 'list':
            objects = list(init)
            model = list(init)
        else:
            objects = dict(zip(NAMES0, init))
            model = collections.OrderedDict(zip(NAMES0, init))
        default = [INIT[0]] if cfg['ptype'] == 'ListSelector' else INIT[0]
        cls = type('S18', (param.Parameterized,), {'s': ptype(objects=objects, default=default, **({'check_on_set': False} if cfg.get('open') else {}))})
        inst = cls()
        sibling = cls()
        sibling.param.s              # has its own per-instance Parameter too
        log = []
        if cfg['level'] == 'instance':
            pobj = lambda: inst.param.s
            inst.param.watch(lambda *evs: log.append(evs), ['s'], what='objects')
        else:
            pobj = lambda: cls.param.s
            cls.param.watch(lambda *evs: log.append(evs), ['s'], what='objects')
        w = dict(cls=cls, inst=inst, pobj=pobj, log=log, sibling=sibling, proxy=None, init=list(init), init_names=list(zip(NAMES0, init)) if cfg['style'] == 'dict' else [])
        return w, model

    def apply(self, cfg, w, op):
        p = w['pobj']()
        kind = op[0]
        if cfg.get('reuse'):
            if w['proxy'] is None or kind == 'replace':
                w['proxy'] = p.objects
            o = w['proxy']
        else:
            o = p.objects
        if kind == 'append':
            return o.append(dec(op[1]))
        if kind == 'insert':
            return o.insert(op[1], dec(op[2]))
        if kind == 'extend':
            return o.extend([dec(x) for x in op[1]])
        if kind == 'extend_gen':
            return o.extend(dec(x) for x in op[1])
        if kind == 'replace_self':
            p.objects = p.objects
            w['proxy'] = None
            return None
        if kind == 'popdefault':
            return o.pop(op[1], dec(op[2]))
        if kind == 'setitem':
            o[op[1]] = dec(op[2])
            return None
        if kind == 'pop':
            return o.pop(*op[1:])
        if kind == 'popkey':
            return o.pop(op[1])
        if kind == 'remove':
            return o.remove(dec(op[1]))
        if kind == 'remove_same':
            stored = [x for x in p._objects if x is dec(op[1]) or x == dec(op[1])][0]
            return o.remove(stored)
        if kind == 'clear':
            return o.clear()
        if kind == 'setkey':
            o[op[1]] = dec(op[2])
            return None
        if kind == 'update':
            if len(op) > 3:
                try:
                    o.update([(k, dec(v)) for k, v in op[1]] + [(1, 2, 3)])
                except (ValueError, TypeError):
                    return None
                raise AssertionError('update accepted a malformed element')
            if len(op) > 2:
                return o.update([(k, dec(v)) for k, v in op[1]])
            return o.update({k: dec(v) for k, v in op[1]})
        if kind == 'updatekw':
            return o.update({}, **{op[1]: dec(op[2])})
        if kind == 'replace':
            if cfg['style'] == 'list':
                p.objects = [dec(x) for x in op[1]]
            else:
                given = {k: dec(v) for k, v in op[1]}
                w['given'] = (given, dict(given))        # the caller's dict stays the caller's: later mutations of the Selector do not touch it
                p.objects = given
            w['proxy'] = None
            return None
        raise AssertionError(op)

    def assign(self, cfg, w, v):
        """try to assign value v through the configured level; True iff accepted."""
        val = [v] if cfg['ptype'] == 'ListSelector' else v
        target = w['inst'] if cfg['level'] == 'instance' else w['cls']
        try:
            setattr(target, 's', val)
        except ValueError:
            return False
        got = getattr(target, 's')
        if got is not val and got != val:
            return 'readback'
        return True

    def observe(self, cfg, w):
        p = w['pobj']()
        o = p.objects
        return {
            'list': list(o),
            'items': list(o.items()),
            'keys': list(o.keys()),
            'values': list(o.values()),
            'names': list(p.names.items()),
            'range': list(p.get_range().items()),
            'len': len(o),
        }

    def check_state(self, cfg, w, model, step, opkind):
        vs = []
        obs = self.observe(cfg, w)
        if cfg['style'] == 'list':
            objs = list(model)
            items = [(keyname(x), x) for x in objs]
            names = None
        else:
            objs = list(model.values())
            items = [(k, v) for k, v in model.items() if isinstance(k, str)]
            names = items
        rng = items if cfg['style'] == 'list' else [(k if isinstance(k, str) else k[1], v) for k, v in model.items()]
        def bad(clause, what, exp, got):
            vs.append(V(clause, '%s: expected %r got %r (step %d op %s)' % (what, exp, got, step, opkind),
                        op=opkind, style=cfg['style'], view=what))
        if obs['list'] != objs:
            bad('view-agrees', 'list(objects)', objs, obs['list'])
        if obs['len'] != len(objs):
            bad('view-agrees', 'len(objects)', len(objs), obs['len'])
        judged_items = not (cfg.get('open') and not items)      # (an open Selector without any named entry left falls back to list naming)
        if obs['items'] != items and judged_items:
            bad('view-agrees', 'objects.items()', items, obs['items'])
        if obs['keys'] != [k for k, _ in items] and judged_items:
            bad('view-agrees', 'objects.keys()', [k for k, _ in items], obs['keys'])
        if obs['values'] != objs and not cfg.get('open'):
            bad('view-agrees', 'objects.values()', objs, obs['values'])
        if names is not None and obs['names'] != names:
            bad('view-agrees', 'names', names, obs['names'])
        if obs['range'] != rng:
            bad('view-agrees', 'get_range()', rng, obs['range'])
        if w.get('given') and w['given'][0] != w['given'][1]:
            vs.append(V('caller-dict-changed', 'the dict that was assigned to objects earlier was changed by a later mutation of the Selector: %r -> %r (step %d op %s)' % (
                w['given'][1], w['given'][0], step, opkind), op=opkind, style=cfg['style']))
        # an instance-level mutation leaves the other holders of the Selector alone
        if cfg['level'] == 'instance':
            for label, holder in (('class', w['cls'].param.s), ('sibling instance', w['sibling'].param.s)):
                if list(holder.objects) != w['init'] or (cfg['style'] == 'dict' and list(holder.names.items()) != w['init_names']):
                    vs.append(V('other-holder-changed', '%s (step %d op %s): objects/names of the %s changed to %r / %r' % (
                        'history', step, opkind, label, list(holder.objects), list(holder.names.items())), op=opkind, style=cfg['style'], holder=label))
        # membership: every pool object is accepted iff it is in the model (an open Selector accepts, and adds, everything: not probed)
        for v in [] if cfg.get('open') else POOL + ([None] if cfg.get('with_none') else []) + ([NAN] if cfg.get('with_nan') else []):
            acc = self.assign(cfg, w, v)
            exp = v in objs
            if acc == 'readback':
                vs.append(V('membership', 'accepted %r but read-back differs' % (v,), op=opkind, style=cfg['style'], view='readback'))
            elif acc != exp:
                vs.append(V('membership', 'value %r: expected accepted=%r got %r with objects %r (step %d op %s)' % (
                    v, exp, acc, objs, step, opkind), op=opkind, style=cfg['style'], accepted=acc))
        return vs

    def execute(self, cfg, history):
        w, model = self.fresh(cfg)
        hits = collections.Counter()
        vs = self.check_state(cfg, w, model, 0, 'init') if not history else []
        for i, op in enumerate(history, 1):
            last = i == len(history)
            if last:
                # every view has been looked at in the state the last operation starts from (as the search did when it reached that
                # state): anything a view caches must be brought up to date by the operation
                self.observe(cfg, w)
            del w['log'][:]
            new_model, exp_ret, mutates = self.model_step(cfg, model, op)
            if op[0] == 'assign':
                acc = self.assign(cfg, w, dec(op[1]))
                objs = list(model.values()) if cfg['style'] == 'dict' else list(model)
                hits['assign-accepted' if acc else 'assign-rejected'] += 1
                if last and acc != (cfg.get('open') or dec(op[1]) in objs):
                    vs.append(V('membership', 'assign %r accepted=%r objects=%r' % (op[1], acc, objs), op='assign', style=cfg['style'], accepted=acc))
            else:
                try:
                    ret = self.apply(cfg, w, op)
                except Exception as e:
                    if last:
                        vs.append(V('mutation-raises', '%s raised %r' % (op, e), op=op[0], style=cfg['style'], exc=type(e).__name__))
                    break
                hits['mutation'] += 1
                if last:
                    if op[0] in ('pop', 'popkey', 'popdefault'):
                        hits['pop'] += 1
                        if ret is not exp_ret and ret != exp_ret:
                            vs.append(V('pop-returns-removed', '%s returned %r, removed object is %r' % (op, ret, exp_ret),
                                        op=op[0], style=cfg['style']))
                    changed = (list(new_model.items()) != list(model.items())) if cfg['style'] == 'dict' else (new_model != model)
                    if cfg.get('open'):
                        # the event shows the name mapping: a mutation that only touches un-named entries shows a changes-only watcher nothing new
                        named = lambda mm: [(k, v) for k, v in mm.items() if isinstance(k, str)]
                        changed = named(new_model) != named(model)
                    if len(op) > 3 and op[0] == 'update':
                        pass        # a failing mutation: how often it notifies is not fixed by the statement
                    elif len(w['log']) != 1 and (changed or len(w['log']) > 1):
                        vs.append(V('objects-watcher-once', '%s notified the objects watcher %d times' % (op, len(w['log'])),
                                    op=op[0], style=cfg['style'], calls=len(w['log'])))
                    else:
                        hits['watcher-once'] += 1
            model = new_model
            if last:
                vs.extend(self.check_state(cfg, w, model, i, op[0]))
        del w['log'][:]
        mstate = list(model.items()) if cfg['style'] == 'dict' else list(model)
        fp = try_fingerprint([('cls', w['cls']), ('inst', w['inst'])], extra=mstate)
        nxt = [] if vs else self.enabled(cfg, model)
        return Result(vs, fp=fp, next_ops=nxt, outcome=repr(mstate), hits=hits)


HARNESS = C18()
