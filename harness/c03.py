"""C03 — each change reaches each watcher exactly once with true old/new values.

Union of complete slices (each exhaustive in its own axes): ordering/lifecycle, filtering over the
equality domain, cascades (queued / non-queued), slot watchers, class-level watchers."""
import itertools
import collections

from mc.engine import Harness, Result, V
from mc.heapfp import try_fingerprint
from harness.dispatch_world import World, make_vals, B1, B2, EQ_DOMAIN

NVALS = len(EQ_DOMAIN)


def W(i, names, **kw):
    d = dict(id='w%d' % i, names=list(names))
    d.update(kw)
    return d


class C03(Harness):
    pid = 'C03'
    level = 'model_checking'
    kind = 'bfs'
    technique = ('explicit-state BFS over assignment/update/trigger/unwatch programs on the real dispatcher; every callback trace '
                 'is checked for inclusion in a reference dispatcher written from the statement')
    rule = ('state = (watcher configuration, model values/registrations, heap fingerprint); transition = one operation executed on a '
            'fresh instance after replaying the history; every recorded callback trace is matched against the reference dispatcher')
    assumptions = ('acyclic cascades only; at most 3 watchers; tie order of slot watchers follows the implementation (statement fixes '
                   'order only for value watchers)',)

    def bounds(self, tier):
        return {'depth': {'ordering': 3 if tier == 'quick' else 4, 'filtering': 2 if tier == 'quick' else 3,
                          'cascade': 3 if tier == 'quick' else 4, 'slot': 3 if tier == 'quick' else 4, 'class': 3 if tier == 'quick' else 4,
                          'oneshot': 3 if tier == 'quick' else 4,
                          'subclass': 3 if tier == 'quick' else 4, 'follow': 3 if tier == 'quick' else 4,
                          'oneshot_slot': 3 if tier == 'quick' else 4, 'equalreg': 3 if tier == 'quick' else 4},
                'configs': len(self.configs(tier)), 'equality_domain': NVALS}

    def configs(self, tier):
        out = []
        # 1 ordering + lifecycle: three watchers on a, every precedence vector, args/kwargs
        for precs in itertools.product((0, 1), repeat=3):
            for modes in (('args', 'args', 'args'), ('kwargs', 'args', 'args')):
                specs = [W(i, ['a'] if i < 2 else ['a', 'b'], onlychanged=False, precedence=precs[i], mode=modes[i]) for i in range(3)]
                out.append({'slice': 'ordering', 'specs': specs})
        # 1b equal-but-distinct registrations (w0 and w2 are equal Watcher tuples, w1 sits between them): unwatch removes the very
        #    registration it was handed, the surviving ones keep their order
        for what in (None, 'bounds'):
            for prec1 in (0, 1):
                if what is None:
                    specs = [W(0, ['a'], onlychanged=False, eqcb=True), W(1, ['a'], onlychanged=False, precedence=prec1),
                             W(2, ['a'], onlychanged=False, eqcb=True)]
                else:
                    specs = [W(0, ['n'], what='bounds', onlychanged=False, eqcb=True), W(1, ['n'], what='bounds', onlychanged=False, precedence=prec1),
                             W(2, ['n'], what='bounds', onlychanged=False, eqcb=True)]
                out.append({'slice': 'equalreg', 'specs': specs})
        # 2 filtering: changes-only watcher + an unfiltered witness
        out.append({'slice': 'filtering', 'specs': [W(0, ['a'], onlychanged=True), W(1, ['a'], onlychanged=False)]})
        out.append({'slice': 'filtering', 'specs': [W(0, ['a'], onlychanged=True, mode='kwargs')]})
        # 3 cascades
        for q1, q2, p1, p3, oc in itertools.product((False, True), (False, True), (0, 1), (0, 1), (True, False)):
            specs = [W(0, ['a'], queued=q1, precedence=p1, onlychanged=oc, action=['set', 'b', 1]),
                     W(1, ['b'], queued=q2, onlychanged=oc, action=['set', 'n', 2]),
                     W(2, ['a', 'b', 'n'], precedence=p3, onlychanged=oc)]
            out.append({'slice': 'cascade', 'specs': specs})
        # 4 slot watchers on an instance, mixed with value watchers
        for precs in itertools.product((0, 1), repeat=2):
            specs = [W(0, ['n'], what='bounds', precedence=precs[0], onlychanged=False),
                     W(1, ['n'], what='bounds', precedence=precs[1]),
                     W(2, ['n'], onlychanged=False)]
            out.append({'slice': 'slot', 'specs': specs})
        for q in (True, False):
            specs = [W(0, ['n'], what='bounds', queued=q, onlychanged=False, action=['set', 'a', 1]),
                     W(1, ['a'], onlychanged=False, action=['set', 'b', 2]), W(2, ['a', 'b'], onlychanged=True, precedence=1)]
            out.append({'slice': 'slot', 'specs': specs})
        # 6 one-shot watchers: a callback that removes its own registration while the event is being dispatched
        #   (every watcher registered when the assignment was made is still called exactly once; the removed one never again)
        for precs in itertools.product((0, 1), repeat=3):
            for j in range(3):
                specs = [W(i, ['a'] if i != 1 else ['a', 'b'], onlychanged=False, precedence=precs[i], action=['unwatch', i] if i == j else None) for i in range(3)]
                out.append({'slice': 'oneshot', 'specs': specs})
        # 5 class-level watchers and class-level assignment
        for precs in itertools.product((0, 1), repeat=2):
            specs = [W(0, ['a'], target='cls', precedence=precs[0], onlychanged=False),
                     W(1, ['a', 'b'], target='cls', precedence=precs[1]),
                     W(2, ['n'], target='cls', what='bounds', onlychanged=False)]
            out.append({'slice': 'class', 'specs': specs})
        # 8 an instance that follows the class default (with or without a per-instance Parameter) while the class default changes:
        #   old is the value actually replaced
        out.append({'slice': 'follow', 'specs': [W(0, ['a'], onlychanged=True), W(1, ['a'], onlychanged=False)]})
        # 9 one-shot slot watchers
        for j in range(3):
            specs = [W(i, ['n'], what='bounds', onlychanged=False, action=['unwatch', i] if i == j else None) for i in range(3)]
            out.append({'slice': 'oneshot_slot', 'specs': specs})
        # 7 a subclass with its own copies of the Parameters: watchers registered on the base class and on the subclass afterwards
        #   belong to different Parameters (an assignment on one level calls that level's watchers only)
        for precs in itertools.product((0, 1), repeat=2):
            specs = [W(0, ['a'], target='cls', precedence=precs[0], onlychanged=False),
                     W(1, ['a', 'b'], target='sub', precedence=precs[1], onlychanged=False),
                     W(2, ['b'], target='cls')]
            out.append({'slice': 'subclass', 'specs': specs})
        return out

    def depth(self, tier, cfg):
        return self.bounds(tier)['depth'][cfg['slice']]

    def enabled(self, cfg, world):
        s = cfg['slice']
        ops = []
        if s == 'ordering':
            ops = [['set', 'a', 1], ['set', 'a', 2], ['set', 'b', 1], ['update', [['a', 1], ['b', 1]]], ['update', [['b', 2], ['a', 2]]],
                   ['trigger', ['a']], ['trigger', ['b', 'a']]]
            for i, w in enumerate(world.model.W):
                pass
            for i in range(3):
                mw = [w for w in world.model.W if w['id'] == 'w%d' % i][0]
                ops.append(['unwatch', i] if mw['active'] else ['watch', i])
                if not mw['active']:
                    ops.append(['watch_bad', i])
        elif s == 'equalreg':
            if cfg['specs'][0].get('what') == 'bounds':
                ops = [['slot', 'n', 'bounds', B1], ['slot', 'n', 'bounds', B2]]
            else:
                ops = [['set', 'a', 1], ['set', 'a', 2], ['trigger', ['a']]]
            for i in range(3):
                mw = [w for w in world.model.W if w['id'] == 'w%d' % i][0]
                ops.append(['unwatch', i] if mw['active'] else ['watch', i])
        elif s == 'oneshot':
            ops = [['set', 'a', 1], ['set', 'a', 2], ['update', [['a', 1], ['b', 1]]], ['trigger', ['a']]]
            for i in range(3):
                mw = [w for w in world.model.W if w['id'] == 'w%d' % i][0]
                if not mw['active']:
                    ops.append(['watch', i])
        elif s == 'filtering':
            ops = [['set', 'a', v] for v in EQ_DOMAIN]
        elif s == 'cascade':
            ops = [['set', 'a', 1], ['set', 'a', 2], ['set', 'b', 1], ['set', 'b', 2], ['set', 'n', 2], ['set', 'n', 1],
                   ['update', [['a', 1], ['b', 2]]], ['update', [['a', 2], ['n', 2]]]]
        elif s == 'slot':
            ops = [['slot', 'n', 'bounds', B1], ['slot', 'n', 'bounds', B2], ['set', 'n', 2], ['set', 'n', 1],
                   ['unwatch', 1] if [w for w in world.model.W if w['id'] == 'w1'][0]['active'] else ['watch', 1]]
        elif s == 'follow':
            ops = [['touch', 'a'], ['csetq', 'a', 1], ['csetq', 'a', 2], ['set', 'a', 1], ['set', 'a', 2], ['trigger', ['a']]]
        elif s == 'oneshot_slot':
            ops = [['slot', 'n', 'bounds', B1], ['slot', 'n', 'bounds', B2]]
            for i in range(3):
                mw = [w for w in world.model.W if w['id'] == 'w%d' % i][0]
                if not mw['active']:
                    ops.append(['watch', i])
        elif s == 'subclass':
            ops = [['cset', 'a', 1], ['cset', 'a', 2], ['cset', 'b', 1], ['sset', 'a', 1], ['sset', 'a', 2], ['sset', 'b', 2]]
        elif s == 'class':
            ops = [['cset', 'a', 1], ['cset', 'a', 2], ['cset', 'b', 1], ['slot', 'n', 'bounds', B1, 'cls'], ['slot', 'n', 'bounds', B2, 'cls']]
        return ops

    def execute(self, cfg, history):
        world = World(cfg['specs'], event=False, readback='cls' if cfg['slice'] in ('class', 'subclass') else 'inst')
        vs = []
        for i, op in enumerate(history):
            last = i == len(history) - 1
            r = world.step(op, check=True)
            if r:
                if last:
                    vs = r
                else:
                    vs = [V('prefix-diverged', 'prefix step %d diverged: %r' % (i, r), op=op[0])]
                break
        hits = dict(world.model.hits)
        del world.log[:]
        fp = try_fingerprint([('cls', world.cls), ('o', world.o)] + ([('sub', world.sub)] if world.sub is not None else []), extra=world.model.canon())
        nxt = [] if vs else self.enabled(cfg, world)
        outcome = repr(world.model.canon()[0:3])
        return Result(vs, fp=fp, next_ops=nxt, outcome=outcome, hits=hits)


HARNESS = C03()
