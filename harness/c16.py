"""C16 — serialized state always validates against the generated JSON schema.

Bounded-exhaustive enumeration of constraint configurations x valid values for the schema-capable types; the oracle is the
jsonschema Draft-7 validator (vendored from the offline wheelhouse by setup.sh)."""
import datetime as dt
import itertools
import json
import math

from mc.engine import Harness, Result, V
from mc.world import reset_globals

INCL = list(itertools.product((True, False), repeat=2))
BOUNDS = [None, (0, None), (None, 10), (0, 10)]
FRAC_BOUNDS = [(0.5, 10), (0, 10.5), (-10, -0.5), (None, 7.5), (0.5, None)]


def configs():
    out = []

    def add(t, **kw):
        d = {'t': t}
        d.update(kw)
        out.append(d)
    for an in (False, True):
        for t in ('Integer', 'Number'):
            for b in BOUNDS:
                for inc in (INCL if b else [(True, True)]):
                    add(t, allow_None=an, bounds=b, inclusive=inc)
        for b in FRAC_BOUNDS:
            for inc in INCL:
                add('Integer', allow_None=an, bounds=b, inclusive=inc)
        # a bound given as infinity (no limit on that side): the schema must still be JSON
        for t in ('Number', 'Range'):
            for b in ((0, math.inf), (-math.inf, 10), (-math.inf, math.inf)):
                add(t, allow_None=an, bounds=b, inclusive=(True, True))
        for b in BOUNDS:
            for inc in (INCL if b else [(True, True)]):
                add('Range', allow_None=an, bounds=b, inclusive=inc)
        add('String', allow_None=an)
        add('String', allow_None=an, regex='^a')
        add('Boolean', allow_None=an)
        for ln in (1, 2, 3):
            add('Tuple', allow_None=an, length=ln)
            add('NumericTuple', allow_None=an, length=ln)
        add('XYCoordinates', allow_None=an)
        add('Date', allow_None=an)
        add('CalendarDate', allow_None=an)
        for it in (None, 'int', 'int_str', 'str', 'float', 'bool'):
            for b in ((0, None), (1, 2)):
                add('List', allow_None=an, item_type=it, bounds=b)
        add('Dict', allow_None=an)
        for objs in ('ints', 'strs', 'mixed', 'floats', 'with_none', 'empty', 'dict', 'samename', 'dict_open', 'dict_open_newtype'):
            add('Selector', allow_None=an, objects=objs)
            add('ListSelector', allow_None=an, objects=objs)
        for c in ('int', 'str', 'float', 'int_str', 'dict', 'list', 'bool', 'bool_str'):
            add('ClassSelector', allow_None=an, cls=c)
    return out


TYPES = {'int': int, 'str': str, 'float': float, 'int_str': (int, str), 'dict': dict, 'list': list, 'bool': bool, 'bool_str': (bool, str), None: None}
OBJS = {'ints': [1, 2, 3], 'strs': ['a', 'b'], 'mixed': [1, 'a', 2.5], 'floats': [0.5, 1.5], 'with_none': [None, 1, 'a'], 'empty': [],
        'dict': {'one': 1, 'two': 'b'}, 'samename': [1, '1', 2], 'dict_open': {'one': 1, 'two': 2}, 'dict_open_newtype': {'one': 1, 'two': 2}}


NO_DEFAULT = object()


def build(param, cfg):
    """-> (Parameter factory(default), list of valid values, list of out-of-bounds numeric probes)"""
    t = cfg['t']
    pt = getattr(param, t)
    kw = {'allow_None': cfg['allow_None']} if cfg['allow_None'] else {}
    vals, probes = [], []
    if t in ('Integer', 'Number', 'Range'):
        b, inc = cfg['bounds'], tuple(cfg['inclusive'])
        kw['bounds'] = b
        kw['inclusive_bounds'] = inc
        lo, hi = b if b else (None, None)
        cand = [1, 5, 9, 0, 10, -3, 12, 7, 8, -1, -10, 11, 10 ** 6, -10 ** 6]
        if t != 'Integer':
            cand += [0.5, 9.5, 0.0, 10.0, math.nextafter(0.0, 1), math.nextafter(10.0, 0), -2.5, 1e300]

        def inside(x):
            if lo is not None and not (x >= lo if inc[0] else x > lo):
                return False
            if hi is not None and not (x <= hi if inc[1] else x < hi):
                return False
            return True
        good = [x for x in cand if inside(x)]
        bad = [x for x in cand if not inside(x)]
        if t == 'Range':
            vals = [(x, y) for x in good[:5] for y in good[:5] if x <= y][:12]
        else:
            vals = good
            probes = bad
            if t == 'Number':
                if lo is not None and math.isfinite(lo):
                    probes.append(math.nextafter(float(lo), -math.inf))
                if hi is not None and math.isfinite(hi):
                    probes.append(math.nextafter(float(hi), math.inf))
    elif t == 'String':
        if 'regex' in cfg:
            kw['regex'] = cfg['regex']
        vals = ['a', 'abc', 'aé"\\'] + ([''] if 'regex' not in cfg else [])
    elif t == 'Boolean':
        vals = [True, False]
    elif t in ('Tuple', 'NumericTuple'):
        kw['length'] = cfg['length']
        n = cfg['length']
        vals = [tuple(range(n)), tuple(0.5 + i for i in range(n))]
        if t == 'Tuple':
            vals.append(tuple(['a', None, 1][:n]))
    elif t == 'XYCoordinates':
        vals = [(0.0, 0.0), (1, 2.5)]
    elif t == 'Date':
        vals = [dt.datetime(2020, 1, 2, 3, 4, 5), dt.datetime(2020, 1, 2, 3, 4, 5, 7)]
    elif t == 'CalendarDate':
        vals = [dt.date(2020, 1, 2)]
    elif t == 'List':
        kw['item_type'] = TYPES[cfg['item_type']]
        kw['bounds'] = cfg['bounds']
        pool = {None: [[1], [1, 'a'], ['a', 2.5]], 'int': [[1], [1, 2]], 'int_str': [[1], ['a', 2]], 'str': [['a'], ['a', 'b']], 'float': [[0.5], [0.5, 1.5]],
                'bool': [[True], [True, False]]}
        vals = list(pool[cfg['item_type']])
        if cfg['bounds'] == (0, None):
            vals.append([])
    elif t == 'Dict':
        vals = [{}, {'a': 1}, {'a': [1, 2], 'b': {'c': None}}]
    elif t in ('Selector', 'ListSelector'):
        o = OBJS[cfg['objects']]
        kw['objects'] = list(o) if isinstance(o, list) else dict(o)
        objs = list(o.values()) if isinstance(o, dict) else list(o)
        if cfg['objects'] in ('dict_open', 'dict_open_newtype'):
            kw['check_on_set'] = False
            # a value that is not (yet) among the named objects: of an already present JSON type / of a new one
            objs = objs + ([5] if cfg['objects'] == 'dict_open' else ['zz'])
        if t == 'Selector':
            vals = list(objs)
        else:
            vals = [[]] + [[x] for x in objs] + ([objs] if objs else [])
    elif t == 'ClassSelector':
        kw['class_'] = TYPES[cfg['cls']]
        vals = {'int': [1, -5], 'str': ['a', ''], 'float': [0.5], 'int_str': [1, 'a'], 'dict': [{}, {'a': 1}], 'list': [[], [1]],
                'bool': [True, False], 'bool_str': [True, 'a']}[cfg['cls']]
    if cfg['allow_None']:
        vals = vals + [None]

    def factory(default=NO_DEFAULT):
        k = dict(kw)
        if 'objects' in k:
            k['objects'] = list(k['objects']) if isinstance(k['objects'], list) else dict(k['objects'])
        if default is NO_DEFAULT:
            return pt(**k)           # declared without a default: the state is whatever the type starts with
        return pt(default=default, **k)
    return factory, vals, probes


class C16(Harness):
    pid = 'C16'
    level = 'exploration'
    kind = 'enum'
    technique = 'bounded-exhaustive enumeration of constraint configurations x valid states; generated schema checked and applied with the jsonschema Draft-7 validator'
    rule = ('case = one constraint configuration of one schema-capable type; for it every listed valid value (class level and instance level) is '
            'serialized and validated against the generated schema, the schema itself is meta-validated, and for Number/Integer every out-of-bounds '
            'probe must be rejected; non-trivial = (configuration, value) validations performed')
    assumptions = ('Draft 7 semantics (numeric exclusiveMinimum/Maximum); format keywords are annotations; booleans are not enumerated as values of '
                   'numeric parameters (whether they are valid numbers is left open, see C01); Selector objects are JSON scalars',
                   'trusted: jsonschema 4.26 from the offline wheelhouse')

    def bounds(self, tier):
        return {'configs': len(configs())}

    def cases(self, tier):
        return configs()

    def run_case(self, cfg):
        import param
        import jsonschema
        reset_globals()
        vs = []
        hits = {'validated': 0, 'probe-rejected': 0, 'schema-wellformed': 0}
        t = cfg['t']
        key = dict(t=t, cfg=', '.join('%s=%r' % (k, v) for k, v in cfg.items() if k != 't'))
        factory, vals, probes = build(param, cfg)
        first = [v for v in vals if v is not None]
        dflt = first[0] if first else None
        n = 0
        for level in ('class', 'instance'):
            for v in vals:
                n += 1
                try:
                    if level == 'class':
                        X = type('X', (param.Parameterized,), {'p': factory(v)})
                        target = X
                    else:
                        X = type('X', (param.Parameterized,), {'p': factory(dflt)})
                        target = X(p=v)
                except Exception as e:
                    vs.append(V('valid-state-rejected', '%s(%s): %r rejected: %r' % (t, key['cfg'], v, e), level=level, **key))
                    continue
                try:
                    schema = target.param.schema()
                    text = target.param.serialize_parameters()
                except Exception as e:
                    vs.append(V('schema-or-serialize-raises', '%s(%s) value %r: %r' % (t, key['cfg'], v, e), level=level, exc=type(e).__name__, **key))
                    continue
                ps = schema['p']
                try:
                    json.dumps(ps, allow_nan=False)
                except ValueError as e:
                    vs.append(V('schema-not-json', '%s(%s): schema %r cannot be written as standard JSON: %s' % (t, key['cfg'], ps, e), level=level, **key))
                    continue
                try:
                    jsonschema.Draft7Validator.check_schema(ps)
                    hits['schema-wellformed'] += 1
                except jsonschema.SchemaError as e:
                    vs.append(V('schema-not-wellformed', '%s(%s): schema %r is not a well-formed JSON Schema: %s' % (t, key['cfg'], ps, e.message),
                                level=level, **key))
                    continue
                full = {'type': 'object', 'properties': schema}
                try:
                    jsonschema.Draft7Validator.check_schema(full)
                    jsonschema.Draft7Validator(full).validate(json.loads(text))
                    hits['validated'] += 1
                except jsonschema.SchemaError as e:
                    vs.append(V('schema-not-wellformed', 'object schema not well-formed: %s' % e.message, level=level, **key))
                except jsonschema.ValidationError as e:
                    vs.append(V('state-fails-schema', '%s(%s): state p=%r serialized as %s does not validate against %r: %s' % (
                        t, key['cfg'], v, text, ps, e.message), level=level, value=repr(v)[:40], **key))
            # the state of a Parameter declared without a default (selectors start with None when nothing else is possible) is a valid state too
            if t in ('Selector', 'ListSelector') and level == 'class':
                n += 1
                try:
                    X = type('X', (param.Parameterized,), {'p': factory()})
                    for target in (X, X()):
                        ps = target.param.schema()['p']
                        data = json.loads(target.param.serialize_parameters())
                        if not jsonschema.Draft7Validator(ps).is_valid(data['p']):
                            vs.append(V('state-fails-schema', '%s(%s) declared without a default: the untouched %s holds %r, which its own schema %r rejects' % (
                                t, key['cfg'], 'class' if target is X else 'instance', data['p'], ps), level='no-default', value=repr(data['p'])[:40], **key))
                        else:
                            hits['validated'] += 1
                except Exception as e:
                    vs.append(V('schema-or-serialize-raises', '%s(%s) declared without a default: %r' % (t, key['cfg'], e), level='no-default', exc=type(e).__name__, **key))
            # a per-instance Parameter reconfigured after creation: the instance's schema must describe the instance's constraints
            if t in ('Integer', 'Number') and level == 'instance' and first:
                X = type('X', (param.Parameterized,), {'p': factory(dflt)})
                x = X()
                x.param.p.bounds = (-1000, 1000)
                x.param.p.inclusive_bounds = (True, True)
                n += 1
                try:
                    x.p = 500
                    ps = x.param.schema()['p']
                    data = json.loads(x.param.serialize_parameters())
                    if not jsonschema.Draft7Validator(ps).is_valid(data['p']):
                        vs.append(V('state-fails-schema', '%s(%s): instance with bounds reconfigured to (-1000, 1000) holds 500, its schema %r rejects it' % (t, key['cfg'], ps),
                                    level='instance-reconfigured', **key))
                    if jsonschema.Draft7Validator(ps).is_valid(5000):
                        vs.append(V('out-of-bounds-accepted', '%s(%s): instance-level schema %r accepts 5000' % (t, key['cfg'], ps), level='instance-reconfigured', **key))
                    cs = X.param.schema()['p']
                    if cfg['bounds'] is not None and cfg['bounds'][1] is not None and cfg['bounds'][1] < 500 and jsonschema.Draft7Validator(cs).is_valid(500):
                        vs.append(V('out-of-bounds-accepted', '%s(%s): class-level schema %r accepts 500 after an instance was reconfigured' % (t, key['cfg'], cs), level='class-after-instance', **key))
                    hits['validated'] += 1
                except Exception as e:
                    vs.append(V('schema-or-serialize-raises', '%s(%s) reconfigured instance: %r' % (t, key['cfg'], e), level='instance-reconfigured', exc=type(e).__name__, **key))
            # a Selector whose default is computed on request: the computed value becomes a valid state like any other
            if t == 'Selector' and cfg['objects'] in ('ints', 'strs', 'mixed') and level == 'class':
                for computed in ('computed', OBJS[cfg['objects']][-1]):
                    n += 1
                    try:
                        X = type('X', (param.Parameterized,), {'p': param.Selector(objects=list(OBJS[cfg['objects']]), allow_None=cfg['allow_None'], empty_default=True,
                                                                                   compute_default_fn=lambda computed=computed: computed)})
                        X.param.p.compute_default()
                        for target in (X, X()):
                            ps = target.param.schema()['p']
                            data = json.loads(target.param.serialize_parameters())
                            if data['p'] != computed:
                                vs.append(V('valid-state-rejected', 'Selector(%s): compute_default() gave %r, the state holds %r' % (key['cfg'], computed, data['p']), level='computed-default', **key))
                            elif not jsonschema.Draft7Validator(ps).is_valid(data['p']):
                                vs.append(V('state-fails-schema', 'Selector(%s): after compute_default() the %s holds %r, which its own schema %r rejects' % (
                                    key['cfg'], 'class' if target is X else 'instance', data['p'], ps), level='computed-default', value=repr(computed), **key))
                            else:
                                hits['validated'] += 1
                    except Exception as e:
                        vs.append(V('schema-or-serialize-raises', 'Selector(%s) computed default %r: %r' % (key['cfg'], computed, e), level='computed-default', exc=type(e).__name__, **key))
            # out-of-bounds probes for Number / Integer (on the schema of a valid state)
            if probes and first:
                X = type('X', (param.Parameterized,), {'p': factory(dflt)})
                ps = (X if level == 'class' else X()).param.schema()['p']
                for x in probes:
                    n += 1
                    if t == 'Integer' and isinstance(x, float):
                        continue
                    if jsonschema.Draft7Validator(ps).is_valid(json.loads(json.dumps(x))):
                        vs.append(V('out-of-bounds-accepted', '%s(%s): schema %r accepts out-of-bounds %r' % (t, key['cfg'], ps, x), level=level, **key))
                    else:
                        hits['probe-rejected'] += 1
        r = Result(vs[:20], outcome=t, hits=hits, nontrivial=n > 0)
        r['n'] = max(1, n)
        r['nt_extra'] = max(0, n - 1)
        return r


HARNESS = C16()
