"""C07 — sub-object dependencies follow the object currently attached.

Explicit-state BFS over attach / replace / detach and leaf assignments (on attached and detached objects) for every
dependency set, against an object-graph model that only uses the values reached through the declared paths."""
import itertools

from mc.engine import Harness, Result, V
from mc.heapfp import try_fingerprint
from mc.world import reset_globals

PATHS = ['a.x', 'a.y', 'a.b.x', 'a.b.y', 'a.param', 'x', 'c.y', 'a.b.c.x', 'a.b.param']
BOT = '<unresolved>'


class Boom(Exception):
    pass


SUBPATHS = ['a.x', 'a.y', 'a.b.x', 'a.b.y', 'c.y', 'a.param']


def dep_sets(tier):
    """dependency sets explored by BFS: every single path, every path combined with the parent's own parameter, every pair of
    paths through sub-objects (same sub-object, different roots, a leaf beside a deeper path) and one triple."""
    singles = [(p,) for p in PATHS]
    pairs = [(p, 'x') for p in PATHS if p != 'x']
    multi = [tuple(c) for c in itertools.combinations(SUBPATHS, 2)] + [('a.b.x', 'a.x'), ('a.x', 'a.b.x', 'c.y')]
    # the sub-object itself next to a path through it (two watchers on the same parameter of the parent)
    multi += [('a', 'a.x'), ('a', 'a.b.x')]
    return singles + pairs, multi


PINNED = []          # (finding id, deps, initial a, history) - scenarios executed but not searched (none at present)


class C07(Harness):
    pid = 'C07'
    level = 'model_checking'
    kind = 'bfs'
    technique = ('explicit-state BFS over attach/replace/detach/assign histories on real Parameterized object graphs; invocation counts and '
                 'leftover watchers compared with an object-graph reference model')
    rule = ('state = (dependency set, initial attachment, model graph, heap fingerprint of all pool objects); transition = one attach/detach/'
            'assignment; expectation uses only the value reached through each declared path before and after the step')
    assumptions = ('paths of depth <= 2 (one of depth 3) plus a.param, alone, with an own parameter, in pairs and one triple; pools of 2 mid objects and 3 leaves; '
                   'a path going unresolved<->resolved may or may not fire (EITHER)',)

    def bounds(self, tier):
        return {'depth': '2 (3 for a.b.x and a.param)' if tier == 'quick' else '3 (4 for a.b.x and a.param)', 'configs': len(self.configs(tier))}

    def configs(self, tier):
        out = []
        basic, multi = dep_sets(tier)
        for ds in basic:
            for init in (None, 'M0'):
                out.append({'deps': list(ds), 'a0': init})
        for ds in multi:
            for init in ((None, 'M0') if tier == 'thorough' or ds in (('a.x', 'a.y'), ('a.x', 'c.y'), ('a.b.x', 'a.x')) else ('M0',)):
                out.append({'deps': list(ds), 'a0': init})
        # the three-object path with objects missing at construction and attached later
        out.append({'deps': ['a.b.c.x'], 'a0': 'M0', 'pre': [['M0', 'b', None], ['L0', 'c', 'L1']]})
        out.append({'deps': ['a.b.c.x'], 'a0': 'M0', 'pre': [['L0', 'c', 'L1']]})
        # two watching methods, each with a single path through the same sub-object(s)
        for d1, d2 in ((['a.b.x'], ['a.b.y']), (['a.x'], ['a.b.x']), (['a.b.x'], ['a.b.x'])):
            out.append({'deps': d1, 'deps2': d2, 'a0': 'M0'})
        # two parents holding the same sub-objects, each with the (same-named) dependent method
        for ds in (['a.x'], ['a.b.x'], ['a.x', 'c.y']):
            out.append({'deps': ds, 'a0': 'M0', 'two': True})
        for fid, deps, a0, hist in PINNED:
            out.append({'deps': deps, 'a0': a0, 'pinned': hist, 'finding': fid})
        return out

    def depth(self, tier, cfg):
        if 'pinned' in cfg:
            return 0
        deep = (cfg['deps'] in (['a.b.x'], ['a.param']) and cfg['a0'] == 'M0') or bool(cfg.get('pre'))
        if tier == 'quick':
            return 3 if deep else 2
        return 4 if deep else 3

    # ---- world
    def fresh(self, cfg):
        import param
        reset_globals()
        log = []
        # value-based equality, as many model classes define it: objects on a path must be told apart by identity
        def veq(self, other):
            return type(other) is type(self) and (self.x, self.y) == (other.x, other.y)
        Leaf = type('Leaf', (param.Parameterized,), {'x': param.Parameter(0), 'y': param.Parameter(0), 'c': param.Parameter(None),
                                                       '__eq__': veq, '__hash__': param.Parameterized.__hash__})
        Mid = type('Mid', (param.Parameterized,), {'x': param.Parameter(0), 'y': param.Parameter(0), 'b': param.Parameter(None),
                                                     '__eq__': veq, '__hash__': param.Parameterized.__hash__})

        flags = {'raise': False}

        def cb(self):
            log.append('cb' if self is not objs.get('T2') else 'cbB')
            if flags['raise']:
                flags['raise'] = False
                raise Boom('dependent method')
        cb = param.depends(*cfg['deps'], watch=True)(cb)
        ns = {'a': param.Parameter(None), 'c': param.Parameter(None), 'x': param.Parameter(0), 'cb': cb}
        if cfg.get('deps2'):
            def cb2(self):
                log.append('cb2')
            ns['cb2'] = param.depends(*cfg['deps2'], watch=True)(cb2)
        Top = type('Top', (param.Parameterized,), ns)
        # L2 and M1 are container-like (empty => falsy): code that tests sub-objects by truthiness mistakes them for None
        FLeaf = type('FLeaf', (Leaf,), {'__len__': lambda self: 0})
        FMid = type('FMid', (Mid,), {'__len__': lambda self: 0})
        objs = {'L0': Leaf(x=0, y=0), 'L1': Leaf(x=1, y=0), 'L2': FLeaf(x=0, y=1)}
        objs['M0'] = Mid(x=0, y=0, b=objs['L0'])
        objs['M1'] = FMid(x=0, y=1, b=objs['L1'])
        model = {'L0': {'x': 0, 'y': 0, 'c': None}, 'L1': {'x': 1, 'y': 0, 'c': None}, 'L2': {'x': 0, 'y': 1, 'c': None},
                 'M0': {'x': 0, 'y': 0, 'b': 'L0'}, 'M1': {'x': 0, 'y': 1, 'b': 'L1'},
                 'T': {'a': cfg['a0'], 'c': 'L2', 'x': 0}}
        for o, n, v in cfg.get('pre', []):           # set up before the parent exists
            setattr(objs[o], n, objs[v] if v else None)
            model[o][n] = v
        objs['T'] = Top(a=objs[cfg['a0']] if cfg['a0'] else None, c=objs['L2'])
        if cfg.get('two'):
            # a second parent holding the same sub-objects: its dependent method (same name, other object) is judged on its own
            objs['T2'] = Top(a=objs['M0'], c=objs['L2'])
            model['T2'] = {'a': 'M0', 'c': 'L2', 'x': 0}
        return dict(objs=objs, log=log, classes=(Leaf, Mid, Top), flags=flags), model

    def enabled(self, cfg, model):
        ops = []
        for v in (None, 'M0', 'M1'):
            ops.append(['attach', 'T', 'a', v])
        for m in ('M0', 'M1'):
            for v in (None, 'L0', 'L1', 'L2'):
                ops.append(['attach', m, 'b', v])
        for v in ('L0', 'L2', None):
            ops.append(['attach', 'T', 'c', v])
        for o in ('L0', 'L1', 'L2'):
            for n in ('x', 'y'):
                ops.append(['set', o, n, 1 - model[o][n]])
        for o in ('M0', 'M1'):
            for n in ('x', 'y'):
                ops.append(['set', o, n, 1 - model[o][n]])
        if any('.c.' in p for p in cfg['deps'] + cfg.get('deps2', [])):
            for v in (None, 'L1', 'L2'):
                ops.append(['attach', 'L0', 'c', v])
            ops.append(['attach', 'L2', 'c', 'L1'])
        alld = cfg['deps'] + cfg.get('deps2', [])
        if any(p.startswith('a.') for p in alld) and any(p.startswith('c.') for p in alld):
            # both sub-objects replaced by one update (one batch, two events for the same method), in either keyword order
            for va in ('M0', 'M1'):
                for vc in ('L0', 'L2'):
                    ops.append(['attach2', 'T', 'a+c', va, vc])
                    ops.append(['attach2', 'T', 'c+a', va, vc])
        if len(cfg['deps']) == 1 and not cfg.get('deps2') and not cfg.get('two'):
            # (with two parents an exception from one parent's method also ends the dispatch to the other: C05's subject, not judged here)
            # the dependent method raises while it is being invoked for this replacement
            ops.append(['attach_r', 'M0', 'b', 'L2'])
            ops.append(['attach_r', 'T', 'a', 'M1'])
        ops.append(['set', 'T', 'x', 1 - model['T']['x']])
        ops.append(['set', 'L0', 'x', model['L0']['x']])      # same-value assignment
        return ops

    def reach(self, model, path, root='T'):
        """-> (chain of objects walked, reached value or BOT, value contains object references?)"""
        cur = root
        chain = [root]
        parts = path.split('.')
        for i, p in enumerate(parts):
            if cur is None:
                return tuple(chain), BOT, False
            if p == 'param':
                d = model[cur]
                return tuple(chain), (cur,) + tuple(sorted(d.items())), d.get('b') is not None
            if p not in model[cur]:
                return tuple(chain), BOT, False
            cur = model[cur][p]
            if i < len(parts) - 1:
                chain.append(cur)
        return tuple(chain), ('v', cur), isinstance(cur, str) and cur in model       # (an object-valued leaf: comparisons involve Parameterized values)

    def on_path(self, model, deps):
        keep = {'T'}
        for path in deps:
            cur = 'T'
            for p in path.split('.')[:-1]:
                cur = model[cur].get(p) if cur else None
                if cur is None:
                    break
                keep.add(cur)
        return keep

    def execute(self, cfg, history):
        if 'pinned' in cfg:
            history = cfg['pinned']
        w, model = self.fresh(cfg)
        objs, log = w['objs'], w['log']
        vs = []
        hits = {}
        for i, op in enumerate(history):
            last = i == len(history) - 1
            before = {p: self.reach(model, p) for p in cfg['deps']}
            before2 = {p: self.reach(model, p) for p in cfg.get('deps2', [])}
            beforeB = {p: self.reach(model, p, 'T2') for p in cfg['deps']} if cfg.get('two') else None
            del log[:]
            try:
                if op[0] == 'attach2':
                    model['T']['a'], model['T']['c'] = op[3], op[4]
                    kw = [('a', objs[op[3]]), ('c', objs[op[4]])]
                    objs['T'].param.update(**dict(kw if op[2] == 'a+c' else kw[::-1]))
                elif op[0] in ('attach', 'attach_r'):
                    model[op[1]][op[2]] = op[3]
                    if op[0] == 'attach_r':
                        w['flags']['raise'] = True
                    try:
                        setattr(objs[op[1]], op[2], objs[op[3]] if op[3] else None)
                    except Boom:
                        pass
                    w['flags']['raise'] = False
                else:
                    setattr(objs[op[1]], op[2], op[3])
                    model[op[1]][op[2]] = op[3]
            except Exception as e:
                if last:
                    vs.append(V('op-raises', '%r raised %r (deps %r)' % (op, e, cfg['deps']), op=op[0], deps='+'.join(cfg['deps']), exc=type(e).__name__))
                break
            after = {p: self.reach(model, p) for p in cfg['deps']}
            if cfg.get('deps2') and last:
                b2 = before2
                a2 = {p: self.reach(model, p) for p in cfg['deps2']}
                must2 = [p for p in cfg['deps2'] if b2[p][1] != BOT and a2[p][1] != BOT and b2[p][1] != a2[p][1]]
                either2 = [p for p in cfg['deps2'] if (b2[p][1] == BOT or a2[p][1] == BOT) and (b2[p][0] != a2[p][0] or (b2[p][1] == BOT) != (a2[p][1] == BOT))]
                n2 = log.count('cb2')
                if (must2 and n2 != 1) or (not must2 and not either2 and n2 != 0) or n2 > 1:
                    vs.append(V('fires-exactly-once', 'history %r: second method (depends on %r): reached %r -> %r but it ran %d times' % (
                        history, cfg['deps2'], [b2[p][1] for p in cfg['deps2']], [a2[p][1] for p in cfg['deps2']], n2), got=n2, op=op[0],
                        deps='+'.join(cfg['deps']) + '|' + '+'.join(cfg['deps2']), target='second-method'))
            if cfg.get('two') and last:
                bB, aB = beforeB, {p: self.reach(model, p, 'T2') for p in cfg['deps']}
                mustB = [p for p in cfg['deps'] if bB[p][1] != BOT and aB[p][1] != BOT and bB[p][1] != aB[p][1]]
                quietB = all(bB[p] == aB[p] and not bB[p][2] for p in cfg['deps'])
                nB = log.count('cbB')
                if (mustB and nB != 1) or (quietB and nB != 0) or nB > 1:
                    vs.append(V('fires-exactly-once', 'history %r: second parent sharing the sub-objects (depends on %r): reached %r -> %r but its method ran %d times' % (
                        history, cfg['deps'], [bB[p][1] for p in cfg['deps']], [aB[p][1] for p in cfg['deps']], nB), got=nB, op=op[0],
                        deps='+'.join(cfg['deps']), target='second-parent'))
            must, either = [], []
            for p in cfg['deps']:
                (c0, v0, r0), (c1, v1, r1) = before[p], after[p]
                if v0 != BOT and v1 != BOT:
                    if v0 != v1:
                        must.append(p)
                    elif (r0 or r1) and (c0 != c1 or op[0] in ('attach', 'attach_r', 'attach2')):
                        either.append(p)       # equal, but the comparison involves Parameterized values (no defined equality)
                elif c0 != c1 or (v0 == BOT) != (v1 == BOT):
                    either.append(p)           # the path (or a prefix of it) changed resolution
            n = log.count('cb')
            if not last:
                continue
            key = dict(op=op[0], deps='+'.join(cfg['deps']), target='%s.%s' % (op[1], op[2]) if op[0] in ('attach', 'attach_r', 'attach2') else 'leaf')
            if 'pinned' in cfg:
                key['pinned'] = cfg['finding']
            if must:
                hits['must-fire'] = 1
                if n != 1:
                    vs.append(V('fires-exactly-once', 'history %r: value reached through %r changed (%r -> %r) but cb ran %d times' % (
                        history, must, [before[p][1] for p in must], [after[p][1] for p in must], n), got=n, **key))
            elif either:
                hits['either'] = 1
                if n > 1:
                    vs.append(V('fires-exactly-once', 'history %r: cb ran %d times for one operation' % (history, n), got=n, **key))
            else:
                hits['must-not-fire'] = 1
                if n != 0:
                    vs.append(V('fires-only-on-change', 'history %r: no value reached through %r changed (reached %r) but cb ran %d times' % (
                        history, cfg['deps'], {p: after[p][1] for p in after}, n), got=n, **key))
            # detached objects keep no watcher installed on the parent's behalf
            keep = self.on_path(model, cfg['deps'] + cfg.get('deps2', []))
            top = objs['T']
            for name, o in objs.items():
                if name in keep or name == 'T':
                    continue
                for pname, d in o._param__private.watchers.items():
                    for what, ws in d.items():
                        for wt in ws:
                            fn = getattr(wt.fn, 'keywords', {}).get('function')
                            if getattr(fn, '__self__', None) is top:
                                vs.append(V('detached-keeps-watcher', 'history %r: %s is not on any current path of %r but still carries a watcher for cb on %s' % (
                                    history, name, cfg['deps'], pname), obj=name[0], **key))
        del log[:]
        mstate = sorted((k, sorted(v.items(), key=str)) for k, v in model.items())
        fp = try_fingerprint([(k, objs[k]) for k in sorted(objs)], extra=repr(mstate)) if not vs else None
        nxt = [] if vs else self.enabled(cfg, model)
        return Result(vs[:3], fp=fp, next_ops=nxt, outcome=repr(mstate), hits=hits)


HARNESS = C07()
