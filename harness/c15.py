"""C15 — JSON serialization round-trips every serializable parameter value.

Bounded-exhaustive enumeration: type x boundary-rich value x class/instance level x {all, subset, serialize_value}; thorough adds
every ordered pair of types in one class."""
import datetime as dt
import itertools
import json

from mc.engine import Harness, Result, V
from mc.world import reset_globals


def _reject_constant(name):
    raise ValueError('non-standard JSON constant ' + name)


D = dt.date
DT = dt.datetime

# type -> (constructor kwargs builder, [values]); every value must be valid for the parameter
SEL_OBJS = [1, 'a', 2.5, 'é']


def type_table():
    return {
        'Integer': ({}, [0, -1, 1, 7, 2 ** 63, -10 ** 30, None]),
        'Number': ({}, [0.0, -0.0, 1.5, 1e308, 5e-324, -1e-7, 3, 2 ** 70, 0.1 + 0.2, None]),
        'String': ({}, ['', 'a', '0', 'None', 'false', 'é☃\U0001F600', 'quo"te\\back\nnl\ttab\x00\x1f', '  ', 'null', None]),
        'Boolean': ({}, [True, False, None]),
        'Tuple': ({'length': None}, [(1,), (1, 'a'), (1.5, None, True), ('x', 'y', 'z', 0), (), None]),
        'NumericTuple': ({'length': None}, [(1, 2.5), (0,), (-0.0, 1e308, 3), (), None]),
        'XYCoordinates': ({}, [(0.0, 0.0), (1, 2.5), (-1e-7, 2 ** 60), None]),
        'Range': ({}, [(0, 1), (1.5, 2.5), (-1, -1), (0, 1e308), None]),
        'Date': ({}, [DT(2020, 1, 2, 3, 4, 5), DT(2020, 1, 2, 3, 4, 5, 123456), DT(2020, 1, 2), DT(1, 1, 1), DT(999, 12, 31, 23, 59, 59, 999999),
                      DT(9999, 12, 31, 23, 59, 59, 999999), DT(1970, 1, 1), None]),
        'CalendarDate': ({}, [D(2020, 1, 2), D(1, 1, 1), D(999, 2, 3), D(9999, 12, 31), None]),
        'DateRange': ({}, [(DT(2020, 1, 1), DT(2020, 1, 2)), (DT(2020, 1, 1, 0, 0, 0, 1), DT(2020, 1, 1, 0, 0, 0, 2)), (D(2020, 1, 1), D(2020, 1, 2)),
                           (DT(999, 1, 1), DT(1000, 1, 1)), (D(1, 1, 1), D(9999, 12, 31)), (DT(2020, 1, 1, 10), DT(2020, 1, 1, 10)), None]),
        'CalendarDateRange': ({}, [(D(2020, 1, 1), D(2020, 1, 2)), (D(1, 1, 1), D(999, 12, 31)), (D(2020, 5, 5), D(2020, 5, 5)), None]),
        'List': ({}, [[], [0], [''], [1], [1, 'a', None, True, 1.5], [[1, 2], {'k': 1}], ['é'], None]),
        'Dict': ({}, [{}, {'': 0}, {'a': 1}, {'a': [1, 2], 'b': {'c': None}}, {'é': 'é'}, None]),
        'Selector': ({'objects': SEL_OBJS}, list(SEL_OBJS) + [None]),
        'SelectorDict': ({'objects': {'one': 1, 'a': 'a', 'f': 2.5, 'e': 'é'}}, list(SEL_OBJS) + [None]),
        'ListSelector': ({'objects': SEL_OBJS}, [[], [1], [1, 'a'], ['é', 2.5, 1, 'a'], None]),
        'Color': ({}, ['#fff', 'red', '#FFFFFF', '#a0B1c2', None]),
    }


def make_param(param, tname, kw, default, allow_None):
    pt = getattr(param, 'Selector' if tname == 'SelectorDict' else tname)
    k = dict(kw)
    if 'length' in k:
        k['length'] = len(default) if default is not None else 2
    if tname in ('Selector', 'SelectorDict', 'ListSelector'):
        k['objects'] = list(k['objects']) if isinstance(k['objects'], list) else dict(k['objects'])
    if allow_None:
        k['allow_None'] = True
    return pt(default=default, **k)


def same(a, b):
    """equal value and identical Python type, recursively"""
    if type(a) is not type(b):
        return False
    if isinstance(a, (list, tuple)):
        return len(a) == len(b) and all(same(x, y) for x, y in zip(a, b))
    if isinstance(a, dict):
        return list(a.keys()) == list(b.keys()) and all(same(a[k], b[k]) for k in a)
    if isinstance(a, float):
        return a == b and str(a) == str(b)      # distinguishes -0.0
    return a == b


def scribble(x):
    """mutate every mutable container reachable from x in place; returns how many were touched"""
    n = 0
    if isinstance(x, list):
        for y in list(x):
            n += scribble(y)
        x.append('SCRIBBLE')
        n += 1
    elif isinstance(x, dict):
        for y in list(x.values()):
            n += scribble(y)
        x['SCRIBBLE'] = 1
        n += 1
    elif isinstance(x, tuple):
        for y in x:
            n += scribble(y)
    return n


def shared_containers(a, b):
    if isinstance(a, (list, dict)) and a is b:
        return type(a).__name__
    if isinstance(a, (list, tuple)) and isinstance(b, (list, tuple)):
        for x, y in zip(a, b):
            r = shared_containers(x, y)
            if r:
                return r
    if isinstance(a, dict) and isinstance(b, dict):
        for k in a:
            if k in b:
                r = shared_containers(a[k], b[k])
                if r:
                    return r
    return None


class C15(Harness):
    pid = 'C15'
    level = 'exploration'
    kind = 'enum'
    technique = 'bounded-exhaustive enumeration of type x value x level x subset/serialize_value round trips through the real serializer'
    rule = ('case = (parameter type, value index, allow_None, class/instance level, mode); non-trivial = the round trip was executed and '
            'compared (value and exact Python type, recursively); distinct by case')
    assumptions = ('finite floats; naive datetimes for Date; no tuples nested inside other containers and only string Dict keys (JSON cannot '
                   'represent them); Selector objects are JSON scalars')

    def bounds(self, tier):
        return {'types': len(type_table()), 'pairs': tier == 'thorough'}

    def cases(self, tier):
        out = []
        for tname, (kw, vals) in type_table().items():
            for vi, v in enumerate(vals):
                for level in ('instance', 'class', 'follow'):
                    for mode in ('all', 'subset', 'subsetiter', 'value', 'desersubset', 'emptysubset', 'twice'):
                        out.append({'t': tname, 'vi': vi, 'level': level, 'mode': mode})
        names = list(type_table())
        pairs = list(itertools.permutations(names, 2))
        if tier == 'quick':
            pairs = [(a, b) for a, b in pairs if a < b]
        for a, b in pairs:
            out.append({'pair': [a, b]})
        return out

    def run_case(self, case):
        import param
        reset_globals()
        tt = type_table()
        vs = []
        if 'pair' in case:
            a, b = case['pair']
            va = [v for v in tt[a][1] if v is not None][-1]
            vb = [v for v in tt[b][1] if v is not None][0]
            ns = {'p': make_param(param, a, tt[a][0], va, False), 'q': make_param(param, b, tt[b][0], vb, False)}
            X = type('X', (param.Parameterized,), ns)
            x = X()
            key = dict(t=a + '+' + b, mode='pair')
            self.roundtrip(param, X, x, {'p': va, 'q': vb}, None, vs, key)
            return Result(vs, outcome='pair', hits={'pair': 1})
        tname, vi, level, mode = case['t'], case['vi'], case['level'], case['mode']
        kw, vals = tt[tname]
        v = vals[vi]
        first = [x for x in vals if x is not None][0]
        if 'length' in kw and v is not None:
            first = tuple(0 for _ in v)      # declared length must match the value's
        key = dict(t=tname, value=repr(v)[:60], level=level, mode=mode)
        if level == 'class':
            try:
                X = type('X', (param.Parameterized,), {'p': make_param(param, tname, kw, v, v is None), 'other': param.Integer(3)})
            except Exception as e:
                return Result([V('valid-state-rejected', 'declaring %s(default=%r) raised %r' % (tname, v, e), **key)], outcome='x')
            target = X
        elif level == 'follow':
            # the instance never sets p; it gets its own copy of the Parameter object, then the class default is replaced: the valid state
            # to be serialized is what attribute access gives on the instance now
            X = type('X', (param.Parameterized,), {'p': make_param(param, tname, kw, first, v is None), 'other': param.Integer(3)})
            try:
                target = X()
                target.param['p'], target.param.p.default
                X.p = v
                v = target.p
            except Exception as e:
                return Result([V('valid-state-rejected', '%s: class-level assignment of %r raised %r' % (tname, v, e), **key)], outcome='x')
        else:
            X = type('X', (param.Parameterized,), {'p': make_param(param, tname, kw, first, v is None), 'other': param.Integer(3)})
            try:
                target = X(p=v)
            except Exception as e:
                return Result([V('valid-state-rejected', '%s: constructor rejected %r: %r' % (tname, v, e), **key)], outcome='x')
        if mode == 'value':
            try:
                text = target.param.serialize_value('p')
                self.std_json(text, vs, key)
                back = X.param.deserialize_value('p', text)
            except Exception as e:
                vs.append(V('roundtrip-raises', '%s value %r: serialize_value/deserialize_value raised %r' % (tname, v, e), exc=type(e).__name__, **key))
                return Result(vs, outcome='value', hits={'value': 1})
            if not same(back, v):
                vs.append(V('roundtrip-differs', '%s: serialize_value/deserialize_value turned %r into %r' % (tname, v, back), **key))
            return Result(vs, outcome='value', hits={'value': 1})
        if mode == 'emptysubset':
            # an empty selection selects nothing (and is not "no selection")
            try:
                text = target.param.serialize_parameters(subset=[])
                if json.loads(text) != {}:
                    vs.append(V('subset-leaks', 'serialize_parameters(subset=[]) produced %s' % text[:120], **key))
                kw2 = X.param.deserialize_parameters(target.param.serialize_parameters(), subset=[])
                if kw2 != {}:
                    vs.append(V('subset-leaks', 'deserialize_parameters(..., subset=[]) produced %r' % (kw2,), **key))
            except Exception as e:
                vs.append(V('roundtrip-raises', 'empty subset raised %r' % (e,), exc=type(e).__name__, **key))
            return Result(vs, outcome=mode, hits={mode: 1})
        if mode == 'twice':
            # the same text restored twice, the first result mutated in between: restored values are independent of earlier restorations
            try:
                text = target.param.serialize_parameters()
                k1 = X.param.deserialize_parameters(text)
                y1 = X(**k1)
                touched = scribble(k1['p']) + scribble(y1.p)
                k2 = X.param.deserialize_parameters(text)
                y2 = X(**k2)
                if not same(y2.p, v):
                    vs.append(V('roundtrip-differs', '%s: second restoration of the same text gives %r for %r after the first result was mutated in place' % (
                        tname, y2.p, v), **key))
                sh = shared_containers(k1['p'], k2['p'])
                if sh:
                    vs.append(V('restorations-share-state', '%s: two restorations of the same text share %s' % (tname, sh), **key))
                v1 = X.param.deserialize_value('p', target.param.serialize_value('p'))
                scribble(v1)
                v2 = X.param.deserialize_value('p', target.param.serialize_value('p'))
                if not same(v2, v):
                    vs.append(V('roundtrip-differs', '%s: second deserialize_value gives %r for %r after the first result was mutated in place' % (tname, v2, v), **key))
            except Exception as e:
                vs.append(V('roundtrip-raises', '%s: restoring %r twice raised %r' % (tname, v, e), exc=type(e).__name__, **key))
            return Result(vs, outcome=mode, hits={mode: 1})
        if mode == 'desersubset':
            # the text holds every parameter, only one is selected when restoring
            try:
                text = target.param.serialize_parameters()
                kw2 = X.param.deserialize_parameters(text, subset=['p'])
                if set(kw2) != {'p'}:
                    vs.append(V('subset-leaks', 'deserialize_parameters(full text, subset=[p]) returned keys %r' % (sorted(kw2),), **key))
                y = X(**kw2)
                if not same(y.p, v):
                    vs.append(V('roundtrip-differs', '%s: p was %r, rebuilt object has %r' % (tname, v, y.p), **key))
                if y.other != 3:
                    vs.append(V('subset-leaks', 'unselected parameter was overridden: other=%r' % (y.other,), **key))
            except Exception as e:
                vs.append(V('roundtrip-raises', '%s: selective restore of %r raised %r' % (tname, v, e), exc=type(e).__name__, **key))
            return Result(vs, outcome=mode, hits={mode: 1})
        subset = ['p'] if mode in ('subset', 'subsetiter') else None
        self.roundtrip(param, X, target, {'p': v, 'other': 3}, subset, vs, key, as_iterator=mode == 'subsetiter')
        return Result(vs, outcome=mode, hits={mode: 1})

    def std_json(self, text, vs, key):
        try:
            json.loads(text, parse_constant=_reject_constant)
        except Exception as e:
            vs.append(V('not-standard-json', 'output is not standard JSON: %r (%r)' % (text[:200], e), **key))

    def roundtrip(self, param, X, target, expect, subset, vs, key, as_iterator=False):
        give = (lambda: iter(subset)) if as_iterator else (lambda: subset)        # the subset may be any iterable of names, also a one-shot one
        try:
            text = target.param.serialize_parameters(subset=give()) if subset else target.param.serialize_parameters()
            self.std_json(text, vs, key)
            kwargs = X.param.deserialize_parameters(text, subset=give()) if subset else X.param.deserialize_parameters(text)
            if subset and set(kwargs) != set(subset):
                vs.append(V('subset-leaks', 'subset=%r (%s) selected keys %r' % (subset, 'iterator' if as_iterator else 'list', sorted(kwargs)), **key))
            if subset:
                extra = set(kwargs) - set(subset)
                if extra or set(json.loads(text)) - set(subset):
                    vs.append(V('subset-leaks', 'subset=%r produced keys %r / %r' % (subset, sorted(json.loads(text)), sorted(kwargs)), **key))
            kwargs.pop('name', None)
            y = X(**kwargs)
        except Exception as e:
            vs.append(V('roundtrip-raises', '%s: round trip of %r raised %r' % (key.get('t'), expect, e), exc=type(e).__name__, **key))
            return
        for n, v in expect.items():
            if subset and n not in subset:
                continue
            got = getattr(y, n)
            if not same(got, v):
                vs.append(V('roundtrip-differs', '%s: %s was %r, rebuilt object has %r' % (key.get('t'), n, v, got), **key))


HARNESS = C15()
