"""Importable classes for C20 (script_repr output refers to them by module path)."""
import param


class Leaf(param.Parameterized):
    x = param.Number(default=1.0)
    tag = param.String(default='leaf')


class Plain(param.Parameterized):
    i = param.Integer(default=0)
    f = param.Number(default=0.0, precedence=2)
    s = param.String(default='', precedence=1)
    by = param.Bytes(default=b'')
    b = param.Boolean(default=False, precedence=-1)
    v = param.Parameter(default=None)
    l = param.List(default=[])
    t = param.Tuple(default=(0, 0), length=2)
    d = param.Dict(default={})
    dd = param.Dict(default={'a': 1, 'b': 2})
    ld = param.List(default=[{'a': 1, 'b': 2}, 3])
    child = param.ClassSelector(class_=Leaf, default=None, allow_None=True)


class Positional(param.Parameterized):
    """positional and keyword parameters in a custom constructor"""
    i = param.Integer(default=0)
    s = param.String(default='x')
    v = param.Parameter(default=None)
    f = param.Number(default=0.5)

    def __init__(self, i, s='x', **params):
        super().__init__(i=i, s=s, **params)


class KwDefault(param.Parameterized):
    """keyword whose signature default differs from the Parameter default"""
    i = param.Integer(default=0)
    v = param.Parameter(default=None)

    def __init__(self, i=7, v=None, **params):
        super().__init__(i=i, v=v, **params)


class Nested(param.Parameterized):
    a = param.ClassSelector(class_=Plain, default=None, allow_None=True)
    items = param.List(default=[])
    v = param.Parameter(default=None)
