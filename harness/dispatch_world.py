"""Shared world for C03/C04/C05: one Parameterized class (a, b generic; n bounded Number with a
slot watcher target; e Event), one instance, recording callbacks, and the glue that runs the
reference dispatcher (models/dispatch.py) over the trace the callbacks recorded."""
import collections
import datetime
import fractions

from mc.world import reset_globals
from models.dispatch import DispatchModel, Mismatch
from mc.engine import V

NAN = float('nan')


class Opaque:
    """an object without __eq__ (identity equality only)"""
    def __init__(self, tag):
        self.tag = tag

    def __repr__(self):
        return 'Opaque(%s)' % self.tag

    def __verif_fp__(self):
        return self.tag


def make_vals():
    """fresh value table per execution; index = token"""
    return [
        0, 1, 2, True, False, 1.0, NAN, None, 'a',
        [1, 2], [1, 2], {'k': [1]}, {'k': [1]},
        datetime.date(2020, 1, 1), datetime.datetime(2020, 1, 1),
        Opaque('o1'), {0, 8}, {8, 0}, (1, 2), fractions.Fraction(1), 'b', [NAN],
        (0, 10), (0, 5), (1, 5),      # bounds values for the slot watcher (22, 23, 24)
        {'a': 1, 'b': 2}, {'a': 1, 'c': 2}, [{'a': 1, 'b': 2}], [{'a': 1, 'c': 2}], {'b': 2, 'a': 1},   # 25..29
        [1, [2, 3]], [1, [2, 4]], (1, 2.0), b'a', frozenset({1}), {1},                               # 30..35
        collections.OrderedDict([('a', 1), ('b', 2)]), collections.OrderedDict([('b', 2), ('a', 1)]),  # 36, 37: equal items, different order (not equal)
        {'a': None}, {'c': None}, [{'a': None}], [{'c': None}],   # 38..41: same length, the differing keys map to None (a .get() shortcut reads them equal)
    ]


B0, B1, B2 = 22, 23, 24
EQ_DOMAIN = list(range(0, 22)) + list(range(25, 42))


class Boom(Exception):
    pass


class Abort(BaseException):
    """a non-Exception error escaping a callback (like KeyboardInterrupt / asyncio.CancelledError)"""


class CB:
    """recording callback; may cascade (action = ['set', name, vi]) and may be told to raise (fault injection)"""

    def __init__(self, world, spec):
        self.world, self.spec = world, spec

    def __verif_fp__(self):
        return self.spec['id']

    def __call__(self, *events, **kw):
        w = self.world
        tok = w.tok
        if self.spec['mode'] == 'kwargs':
            evs = sorted((k, tok(v)) for k, v in kw.items())
        else:
            evs = [dict(name=e.name, what=e.what, old=tok(e.old), new=tok(e.new), type=e.type) for e in events]
        target = {'inst': w.o, 'cls': w.cls, 'sub': w.sub}[self.spec['target']]
        seen = {n: tok(getattr(target, n)) for n in ('a', 'b', 'n')}
        w.ncalls += 1
        w.log.append(('call', {'w': self.spec['id'], 'events': evs, 'seen': seen, 'k': w.ncalls}))
        if w.fault_calls and w.ncalls in w.fault_calls:
            w.faults_fired += 1
            raise w.fault_exc('watcher call %d' % w.ncalls)
        act = self.spec.get('action')
        if act and act[0] == 'unwatch':
            (w.o if self.spec['target'] == 'inst' else w.cls).param.unwatch(w.handles['w%d' % act[1]])
        elif act:
            setattr(target, act[1], w.vals[act[2]])
        w.log.append(('ret', self.spec['id']))


class EqCB(CB):
    """callbacks that compare equal to one another although they are distinct objects (like dataclass handlers): two registrations
    with the same settings are then equal Watcher tuples, and only identity tells them apart"""

    def __eq__(self, other):
        return isinstance(other, EqCB)

    def __hash__(self):
        return 17


class World:
    def __init__(self, specs, event=True, readback='inst'):
        self.readback = readback
        import param
        reset_globals()
        self.param = param
        self.vals = make_vals()
        ns = {'a': param.Parameter(default=self.vals[0]), 'b': param.Parameter(default=self.vals[0]),
              'n': param.Number(default=1, bounds=self.vals[B0]),
              'k': param.Parameter(default=self.vals[0], constant=True), 'ro': param.Parameter(default=self.vals[0], readonly=True),
              'pf': param.Filename(default=None, allow_None=True)}       # (None unless a token points it at a file)
        if event:
            ns['e'] = param.Event()
        self.cls = type('D', (param.Parameterized,), ns)
        self.sub = None
        if any(s.get('target') == 'sub' for s in specs):
            # a subclass that gets its own copies of a and b *before* any watcher is registered: from then on its watchers and the
            # base class's are registered on different Parameter objects
            self.sub = type('DS', (self.cls,), {})
            self.sub.a = self.vals[0]
            self.sub.b = self.vals[0]
        self.o = self.cls()
        self.log = []
        self.ncalls = 0
        self.fault_calls = set()
        self.fault_exc = Boom
        self.faults_fired = 0
        self.stack = []          # open context managers (real objects)
        self.handles = {}
        self.specs = [dict(s) for s in specs]
        mvals = {'a': self.vals[0], 'b': self.vals[0], 'n': 1}
        if event:
            mvals['e'] = False
        self.model = DispatchModel(mvals, {('n', 'bounds'): self.vals[B0]}, event_names=('e',) if event else (), tok=self.tok)
        if self.sub is not None:
            self.model.subvals = {'a': self.vals[0], 'b': self.vals[0]}
        for s in self.specs:
            s.setdefault('what', 'value'); s.setdefault('target', 'inst'); s.setdefault('mode', 'args')
            s.setdefault('queued', False); s.setdefault('precedence', 0); s.setdefault('onlychanged', True)
            s.setdefault('action', None)
            s['names'] = tuple(s['names'])
            self.register(s)
            m = dict(s)
            m['active'] = True
            if m['action'] and m['action'][0] == 'set':
                m['action'] = ['set', m['action'][1], self.vals[m['action'][2]]]
            self.model.W.append(m)

    def tok(self, o):
        for i, v in enumerate(self.vals):
            if v is o:
                return i
        return ['~', repr(o)]

    def register(self, s):
        ns = {'inst': self.o, 'cls': self.cls, 'sub': self.sub}[s['target']].param
        cb = (EqCB if s.get('eqcb') else CB)(self, s)
        if s['mode'] == 'kwargs':
            h = ns.watch_values(cb, list(s['names']), what=s['what'], onlychanged=s['onlychanged'], queued=s['queued'],
                                precedence=s['precedence'])
        else:
            h = ns.watch(cb, list(s['names']), what=s['what'], onlychanged=s['onlychanged'], queued=s['queued'],
                         precedence=s['precedence'])
        self.handles[s['id']] = h

    # ---- implementation side
    def apply(self, op):
        param = self.param
        k = op[0]
        o, V_ = self.o, self.vals
        if k == 'set':
            setattr(o, op[1], V_[op[2]])
        elif k == 'cset':
            setattr(self.cls, op[1], V_[op[2]])
        elif k == 'sset':
            setattr(self.sub, op[1], V_[op[2]])
        elif k == 'touch':
            o.param[op[1]]          # creates the per-instance Parameter (a copy of the class's, default included)
        elif k == 'csetq':
            setattr(self.cls, op[1], V_[op[2]])
        elif k == 'slot':
            target = o if op[4:] != ['cls'] else self.cls
            setattr(target.param[op[1]], op[2], V_[op[3]])
        elif k == 'update':
            o.param.update(**{n: V_[v] for n, v in op[1]})
        elif k == 'trigger':
            o.param.trigger(*op[1])
        elif k == 'unwatch':
            s = self.specs[op[1]]
            (o if s['target'] == 'inst' else self.cls).param.unwatch(self.handles[s['id']])
        elif k == 'watch':
            self.register(self.specs[op[1]])
        elif k == 'watch_bad':
            # a registration that names an unknown parameter is refused as a whole
            s = self.specs[op[1]]
            try:
                (o if s['target'] == 'inst' else self.cls).param.watch(CB(self, s), list(s['names']) + ['nope'], onlychanged=s['onlychanged'])
            except ValueError:
                pass
            else:
                raise AssertionError('watch() accepted an unknown parameter name')
        elif k == 'open':
            cm = {'batch': param.parameterized.batch_call_watchers, 'discard': param.parameterized.discard_events,
                  'edit_constant': param.parameterized.edit_constant}[op[1]](o)
            cm.__enter__()
            self.stack.append((op[1], cm))
        elif k == 'open_update':
            cm = o.param.update(**{n: V_[v] for n, v in op[1]})
            cm.__enter__()
            self.stack.append(('updatectx', cm))
        elif k == 'close':
            kind, cm = self.stack.pop()
            cm.__exit__(None, None, None)
        else:
            raise AssertionError(op)

    # ---- model side
    def model_op(self, op):
        m, V_ = self.model, self.vals
        k = op[0]
        if k == 'set':
            m.op_set(op[1], V_[op[2]])
            m.own.add(op[1])
        elif k == 'cset':
            m.op_set(op[1], V_[op[2]], target='cls')
        elif k == 'touch':
            pass
        elif k == 'csetq':
            # a class-level assignment: instance watchers are not concerned; an instance that never set the parameter follows the class
            if op[1] not in m.own:
                m.vals[op[1]] = V_[op[2]]
        elif k == 'sset':
            # the subclass's own values: only watchers registered on the subclass are concerned
            m.vals, m.subvals = m.subvals, m.vals
            try:
                m.op_set(op[1], V_[op[2]], target='sub')
            finally:
                m.vals, m.subvals = m.subvals, m.vals
        elif k == 'slot':
            m.assign_slot(op[1], op[2], V_[op[3]], target='inst' if op[4:] != ['cls'] else 'cls')
        elif k == 'update':
            m.op_update([(n, V_[v]) for n, v in op[1]])
        elif k == 'trigger':
            m.op_trigger(op[1])
        elif k == 'unwatch':
            m.W[[w['id'] for w in m.W].index(self.specs[op[1]]['id'])]['active'] = False
        elif k == 'watch_bad':
            pass
        elif k == 'watch':
            i = [w['id'] for w in m.W].index(self.specs[op[1]]['id'])
            w = m.W.pop(i)
            w['active'] = True
            m.W.append(w)
        elif k == 'open':
            m.open(op[1])
        elif k == 'open_update':
            m.open('updatectx', [(n, V_[v]) for n, v in op[1]])
        elif k == 'close':
            m.close()

    def step(self, op, check=True):
        """run op on the implementation, then the reference dispatcher over the recorded trace.
        returns list of violations (empty if the trace is licensed by the specification)."""
        del self.log[:]
        try:
            self.apply(op)
        except Exception as e:
            return [V('op-raises', '%r raised %r' % (op, e), op=op[0], exc=type(e).__name__)]
        trace = list(self.log)
        m = self.model
        m.begin(trace)
        try:
            self.model_op(op)
            m.end()
        except Mismatch as mm:
            if not check:
                return ['diverged']
            return [V(mm.clause, mm.detail + ' | op=%r trace=%r' % (op, _short(trace)), op=op[0], **mm.key)]
        vs = []
        if check:
            # read-back: the object shows the model's values
            for n, v in m.vals.items():
                got = getattr(self.o if self.readback == 'inst' else self.cls, n)
                if got is not v and not (got == v and type(got) is type(v)):
                    vs.append(V('read-back', 'after %r: %s is %r, specification says %r' % (op, n, got, v), op=op[0], name=n))
            for n, v in (m.subvals or {}).items():
                got = getattr(self.sub, n)
                if got is not v and not (got == v and type(got) is type(v)):
                    vs.append(V('read-back', 'after %r: subclass value %s is %r, specification says %r' % (op, n, got, v), op=op[0], name='sub.' + n))
        return vs

    def close_all(self):
        """close still-open contexts innermost-first (end of history)"""
        out = []
        while self.stack:
            out.extend(self.step(['close']))
        return out


def _short(trace):
    out = []
    for e in trace:
        if e[0] == 'call':
            r = e[1]
            out.append('%s(%s)' % (r['w'], ','.join(
                ('%s:%s>%s:%s' % (x['name'], x['old'], x['new'], x['type'])) if isinstance(x, dict) else repr(x) for x in r['events'])))
        else:
            out.append('/%s' % e[1])
    return out
