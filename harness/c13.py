"""C13 — the .param namespace always agrees with attribute access.

Explicit-state invariant checking: BFS over class-level assignments at every level, add_parameter (new and existing names) at
every level, namespace reads (they fill caches), instance creation / assignment / namespace access; after every step an
invariant tying `.param` to Python's own attribute lookup is evaluated on every class and instance."""
import inspect
import json
import os

from mc import pin

from mc.engine import Harness, Result, V
from mc.heapfp import try_fingerprint
from mc.world import reset_globals

CLASSES = ['A', 'B', 'C', 'B2', 'D', 'E']


class Veto(ValueError):
    pass


class C13(Harness):
    pid = 'C13'
    level = 'model_checking'
    kind = 'bfs'
    technique = ('explicit-state BFS over class-level sets, add_parameter, cache-filling reads and instance operations on a real class hierarchy; '
                 'invariant: .param agrees with inspect.getattr_static / getattr on every class and instance in every reached state')
    rule = ('state = heap fingerprint of the hierarchy A->B->C->E, A->B2, D(B, B2) and up to two instances; transition = one operation; the invariant is evaluated '
            'after every step, followed by a probe (watch + set on every instance, fresh instance of every class)')
    assumptions = ('non-dynamic values; parameters x (bounded Number), y (String), k (constant list), f (Filename resolved against a search path) and an added z',)

    def bounds(self, tier):
        return {'depth': 3 if tier == 'quick' else 5}

    def depth(self, tier, cfg):
        return 3 if tier == 'quick' else 5

    def fresh(self):
        import param
        reset_globals()
        A = type('A', (param.Parameterized,), {'x': param.Number(default=1, bounds=(0, 10)), 'y': param.String(default='a'),
                                                 'k': param.List(default=[1], constant=True),
                                                 'f': param.Filename(default='engine.py', search_paths=[os.path.join(pin.VERIF, 'mc')])})
        B = type('B', (A,), {})
        C = type('C', (B,), {})
        E = type('E', (C,), {})          # a fourth level: not a direct subclass of any class that is assigned to
        B2 = type('B2', (A,), {'y': param.String(default='b2')})
        D = type('D', (B, B2), {})       # diamond: only the later base (B2) redeclares y
        inside = []
        world = {}

        def class_watcher(*events):
            # the namespace must already agree with attribute access while a watcher of the class-level assignment runs
            if world:
                # the observations made here create and drop objects: the library's global object counter (the source of
                # auto-generated names) is put back, so that observing does not change what later operations see
                import param.parameterized as pz
                count = pz.object_count
                try:
                    inside.extend(self.invariant(world, ['<inside a class-level watcher>'], passive=True))
                finally:
                    pz.object_count = count
                for e in events:
                    # "watching sees the same values as getattr": what the watcher is told is what attribute access gives on that class / instance
                    holder = e.obj if e.obj is not None and not isinstance(e.obj, type) else e.cls
                    got = getattr(holder, e.name)
                    if e.type == 'changed' and got != e.new:
                        inside.append(V('watcher-sees-other-value', 'inside a watcher told that %s.%s became %r, getattr gives %r' % (
                            getattr(holder, '__name__', 'instance'), e.name, e.new, got), name=e.name, level='class' if isinstance(holder, type) else 'instance'))
                if world.get('veto'):
                    # an auditing watcher that has looked the new state up in the namespaces (above) and then refuses it
                    world['veto'] = False
                    raise Veto('refused by the class watcher')
        A.param.watch(class_watcher, ['x', 'y'])
        world.update({'param': param, 'A': A, 'B': B, 'C': C, 'B2': B2, 'D': D, 'E': E, 'inst': [], 'inside': inside})
        return world

    def enabled(self, w):
        ops = []
        for K in CLASSES:
            ops.append(['cset', K, 'x', 2])
            ops.append(['read', K])
            ops.append(['cset_veto', K, 'x', 3])     # the class-level watcher reads every namespace and then raises
        for K in ('A', 'B', 'C'):
            ops.append(['cset', K, 'y', 'q'])
            ops.append(['addp', K, 'z'])
            ops.append(['addp', K, 'x'])
        for K in ('A', 'B'):
            ops.append(['csetp', K, 'z'])          # a Parameter object assigned as a class attribute
            ops.append(['csetp', K, 'x'])
        # a Parameter whose default violates the bounds it inherits: the addition is refused and leaves nothing behind
        ops += [['addp_bad', 'B'], ['csetp_bad', 'B'], ['csetp_bad', 'C']]
        if len(w['inst']) < 2:
            ops += [['new', 'B'], ['new', 'C'], ['new', 'A'], ['new', 'D'], ['new', 'E']]
        for i in range(len(w['inst'])):
            ops += [['iset', i, 'x', 5], ['iread', i], ['iset', i, 'y', 'w'], ['iset', i, 'f', 'pin.py']]
        return ops

    def apply(self, w, op):
        param = w['param']
        k = op[0]
        if k == 'cset':
            setattr(w[op[1]], op[2], op[3])
        elif k == 'cset_veto':
            w['veto'] = True
            try:
                setattr(w[op[1]], op[2], op[3])
            except Veto:
                pass
            finally:
                w['veto'] = False
        elif k == 'read':
            K = w[op[1]]
            list(K.param)
            K.param['x']
            K.param.values()
        elif k == 'addp':
            K = w[op[1]]
            if op[2] == 'z':
                K.param.add_parameter('z', param.Number(default=7))
            else:
                K.param.add_parameter('x', param.Number(default=4, bounds=(0, 100)))
        elif k == 'csetp':
            K = w[op[1]]
            if op[2] == 'z':
                setattr(K, 'z', param.Number(default=7))
            else:
                setattr(K, 'x', param.Number(default=4, bounds=(0, 100)))
        elif k in ('addp_bad', 'csetp_bad'):
            K = w[op[1]]
            bad = param.Number(default=20)          # x inherits bounds (0, 10) (or (0, 100) after a replacement higher up: then it is simply added)
            try:
                if k == 'addp_bad':
                    K.param.add_parameter('x', bad)
                else:
                    setattr(K, 'x', bad)
            except (RuntimeError, ValueError):
                pass
        elif k == 'new':
            w['inst'].append(w[op[1]]())
        elif k == 'iset':
            setattr(w['inst'][op[1]], op[2], op[3])
        elif k == 'iread':
            i = w['inst'][op[1]]
            i.param['x']
            i.param.values()
            list(i.param)

    @staticmethod
    def static_params(K):
        from param.parameterized import Parameter
        out = {}
        for c in K.__mro__:
            for n, v in vars(c).items():
                if n not in out and not n.startswith('_'):
                    out[n] = v
        return {n: v for n, v in out.items() if isinstance(v, Parameter)}

    def invariant(self, w, history, passive=False):
        vs = []
        ctx = 'history %r' % (history,)
        for kn in CLASSES:
            K = w[kn]
            sp = self.static_params(K)
            names = set(K.param)
            if names != set(sp):
                vs.append(V('names', '%s: %s.param lists %s, attribute lookup finds Parameters %s' % (ctx, kn, sorted(names), sorted(sp)), cls=kn,
                            missing=','.join(sorted(set(sp) - names)), extra=','.join(sorted(names - set(sp)))))
                continue
            vals = K.param.values()
            ser = json.loads(K.param.serialize_parameters())
            for n, pobj in sp.items():
                if K.param[n] is not pobj:
                    vs.append(V('param-object', '%s: %s.param[%r] is not the Parameter that governs %s.%s' % (ctx, kn, n, kn, n), cls=kn, name=n))
                    continue
                if n == 'name':
                    continue
                if n != 'f' and K.param[n].default != getattr(K, n):       # (a Filename is resolved on access: default is the raw path)
                    vs.append(V('default', '%s: %s.param[%r].default=%r but %s.%s=%r' % (ctx, kn, n, K.param[n].default, kn, n, getattr(K, n)), cls=kn, name=n))
                if vals.get(n) != getattr(K, n):
                    vs.append(V('values', '%s: %s.param.values()[%r]=%r but %s.%s=%r' % (ctx, kn, n, vals.get(n), kn, n, getattr(K, n)), cls=kn, name=n, level='class'))
                if ser.get(n) != getattr(K, n):
                    vs.append(V('serialize', '%s: serialized %r=%r but %s.%s=%r' % (ctx, n, ser.get(n), kn, n, getattr(K, n)), cls=kn, name=n, level='class'))
        for idx, i in enumerate(w['inst']):
            K = type(i)
            sp = self.static_params(K)
            names = set(i.param)
            if names != set(sp):
                vs.append(V('names', '%s: instance %d of %s: .param lists %s, attribute lookup finds %s' % (ctx, idx, K.__name__, sorted(names), sorted(sp)),
                            cls='inst', missing=','.join(sorted(set(sp) - names)), extra=','.join(sorted(names - set(sp)))))
                continue
            vals = i.param.values()
            ser = json.loads(i.param.serialize_parameters())
            rep = repr(i)
            for n in sp:
                if n == 'name':
                    continue
                v = getattr(i, n)
                if vals.get(n) != v:
                    vs.append(V('values', '%s: instance of %s: .param.values()[%r]=%r but attribute is %r' % (ctx, K.__name__, n, vals.get(n), v), cls='inst', name=n, level='instance'))
                if ser.get(n) != v:
                    vs.append(V('serialize', '%s: instance of %s: serialized %r=%r but attribute is %r' % (ctx, K.__name__, n, ser.get(n), v), cls='inst', name=n, level='instance'))
                if ('%s=%r' % (n, v)) not in rep:
                    vs.append(V('repr', '%s: repr %s does not show %s=%r' % (ctx, rep, n, v), cls='inst', name=n))
        return vs

    def probe(self, w, history):
        vs = []
        ctx = 'history %r' % (history,)
        for idx, i in enumerate(w['inst']):
            for n, new in (('x', 6), ('y', 'probe')):
                log = []
                i.param.watch(lambda *e: log.append(e), [n])
                try:
                    setattr(i, n, new)
                except Exception as e:
                    vs.append(V('probe-set-raises', '%s: instance set %s=%r raised %r' % (ctx, n, new, e), name=n))
                    continue
                if len(log) != 1:
                    vs.append(V('watch-sees-set', '%s: watcher registered through .param.watch on %s saw %d events for one assignment' % (ctx, n, len(log)), name=n))
        for kn in CLASSES:
            K = w[kn]
            o = K()
            for n in self.static_params(K):
                if n == 'name':
                    continue
                if getattr(o, n) != getattr(K, n):
                    vs.append(V('new-instance', '%s: a new %s has %s=%r but %s.%s=%r' % (ctx, kn, n, getattr(o, n), kn, n, getattr(K, n)), cls=kn, name=n))
            if 'z' in self.static_params(K):
                try:
                    o.z = 8
                    if o.z != 8 or o.param.values()['z'] != 8:
                        vs.append(V('added-param-usable', '%s: added parameter z not usable on new %s' % (ctx, kn), cls=kn))
                except Exception as e:
                    vs.append(V('added-param-usable', '%s: setting added parameter z on a new %s raised %r' % (ctx, kn, e), cls=kn))
        return vs

    def execute(self, cfg, history):
        w = self.fresh()
        vs = []
        for i, op in enumerate(history):
            try:
                self.apply(w, op)
            except Exception as e:
                if i == len(history) - 1:
                    vs.append(V('op-raises', 'history %r: %r raised %r' % (history, op, e), op=op[0], exc=type(e).__name__))
                break
        if not vs and w['inside']:
            vs = [V(v['clause'], 'history %r, while the watcher of the last class-level assignment was running: %s' % (history, v['detail']),
                    inside_watcher=True, **v['key']) for v in w['inside'][:3]]
        if not vs:
            vs = self.invariant(w, history)
        fp = None
        nxt = []
        if not vs:
            fp = try_fingerprint([(k, w[k]) for k in CLASSES] + [('i%d' % i, o) for i, o in enumerate(w['inst'])])
            nxt = self.enabled(w)
            vs = self.probe(w, history)
            if vs:
                nxt = []
        return Result(vs[:5], fp=fp, next_ops=nxt, outcome=repr(sorted((k, sorted(w[k].param)) for k in CLASSES)), hits={'invariant': 1})


HARNESS = C13()
