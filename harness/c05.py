"""C05 — failures never corrupt the dispatch state.

Fault enumeration: every program over the C04 token language extended with try-frames, edit_constant,
RAISE_IN_BODY and updates containing a rejected value; for each program every set of <= F watcher
invocations is made to raise.  Oracles: (i) no watcher runs while a batch/discard context that survives
the token is open; (ii) a rejected update announces what it applied before raising; (iii) at the end a
fixed probe is run on the survivor and on a freshly built twin with the same values and watchers and the
two observation traces must be identical; (iv) Event parameters are False and constants constant again."""
import itertools

from mc.engine import Harness, Result, V
from harness.dispatch_world import World, Boom, Abort
from harness.c03 import W

BAD = 99     # rejected by n = Number(bounds=(0, 10))


class C05(Harness):
    pid = 'C05'
    level = 'fault_enumeration'
    kind = 'bfs'
    technique = ('fault enumeration: BFS over all token programs x every subset (<= F) of watcher invocations made to raise, x rejected '
                 'update keys and raising context bodies at every position; differential probe against a freshly built twin')
    rule = ('case = (watcher configuration, token program, set of watcher-invocation indices that raise); non-trivial = at least one fault '
            '(injected raise, rejected key or RAISE_IN_BODY) actually fired; distinct by (program, fault set)')
    assumptions = ('integer values; <= 2 injected watcher faults per program; exceptions are caught by the nearest try-frame or at top level, '
                   'unwinding the real context managers innermost-first; contexts still open at the end are closed normally before the probe',)
    MAXNEST = 3

    def bounds(self, tier):
        return {'program_length': 3 if tier == 'quick' else 4, 'max_injected_watcher_faults': 1 if tier == 'quick' else 2,
                'two_faults_up_to_length': 0 if tier == 'quick' else 3,
                'nesting': self.MAXNEST, 'configs': 5}

    def configs(self, tier):
        cs = [
            ('F1', [W(0, ['a'], onlychanged=True), W(1, ['a', 'b'], onlychanged=False, precedence=1), W(2, ['e'], onlychanged=True)]),
            ('F2', [W(0, ['a'], onlychanged=True, action=['set', 'b', 2]), W(1, ['b'], onlychanged=False, queued=True),
                    W(2, ['a', 'e'], onlychanged=False, precedence=1)]),
            ('F3', [W(0, ['a', 'b'], onlychanged=True, mode='kwargs'), W(1, ['n'], onlychanged=False), W(2, ['e', 'a'], onlychanged=True, queued=True)]),
            # a queued watcher that assigns (its downstream event waits for the end of the outer dispatch) followed by a watcher that may fail
            ('F4', [W(0, ['a'], onlychanged=False, queued=True, action=['set', 'b', 2]), W(1, ['b'], onlychanged=False),
                    W(2, ['a', 'e'], onlychanged=False, precedence=1)]),
            # a watcher that answers a change of a by firing the Event (also while the applied part of a failing update is being announced)
            ('F5', [W(0, ['a'], onlychanged=True, action=['set', 'e', 3]), W(1, ['e'], onlychanged=True), W(2, ['a', 'b'], onlychanged=False, precedence=1)]),
        ]
        F = self.bounds(tier)['max_injected_watcher_faults']
        out = [{'name': n, 'specs': s, 'F': F} for n, s in cs]
        # the same with a non-Exception error (BaseException subclass) escaping the faulty watcher
        out.append({'name': 'F1-abort', 'specs': cs[0][1], 'F': F, 'abort': True})
        return out

    def depth(self, tier, cfg):
        L = self.bounds(tier)['program_length']
        return L - 1 if cfg.get('abort') else L

    def tokens(self, nest, has_open, cfg=None):
        name = (cfg or {}).get('name')
        ops = [['set', 'a', 1], ['set', 'b', 1], ['set', 'e', 3],
               ['update', [['a', 2], ['b', 2]]],
               ['update_bad', [['a', 2], ['n', BAD], ['b', 2]]],
               ['update_bad', [['n', BAD], ['a', 2]]],
               ['update_bad', [['n', BAD], ['e', 3]]],
               ['update_bad', [['a', 2], ['zz', 1]]],
               ]
        if name == 'F5':
            # (the watcher of a fires the Event: updates that apply a and fail before / at the Event)
            ops = [o for o in ops if o not in (['update_bad', [['n', BAD], ['a', 2]]], ['update_bad', [['a', 2], ['zz', 1]]], ['trigger', ['a', 'ro']])]
            ops += [['update_bad', [['a', 2], ['n', BAD], ['e', 3]]], ['update_bad', [['a', 2], ['e', BAD]]]]
        if name == 'F1':
            ops += [['cupdate_nonmap'], ['update_getter_fails']]
        ops += [
               ['trigger', ['a']], ['trigger', ['e']], ['trigger', ['a', 'ro']], ['raise']]
        if nest < self.MAXNEST:
            ops += [['open', 'batch'], ['open', 'discard'], ['open', 'try'], ['open', 'edit_constant'], ['open_update', [['a', 2]]]]
        if has_open:
            ops.append(['close'])
        return ops

    # ---------------------------------------------------------------- one faulty run
    def run_program(self, cfg, program, fault_calls, F):
        """returns (world, violations, info)"""
        world = World(cfg['specs'], event=True)
        world.fault_calls = set(fault_calls)
        if cfg.get('abort'):
            world.fault_exc = Abort
        vs = []
        info = {'fired': 0, 'raised_tokens': 0}
        o = world.o
        stack = world.stack            # entries (kind, cm)

        def deferring_frames():
            return [id(f) for f in stack if f[0] in ('batch', 'discard')]

        def unwind(exc):
            """propagate exc to the nearest try frame (or top level), exiting real context managers"""
            while stack:
                kind, cm = stack.pop()
                if kind == 'try':
                    return
                try:
                    cm.__exit__(type(exc), exc, exc.__traceback__)
                except (Exception, Abort) as e2:      # an exit handler raised (e.g. a watcher faulted during the flush)
                    exc = e2

        for i, op in enumerate(program):
            before_frames = deferring_frames()
            n0 = len(world.log)
            fired0 = world.faults_fired
            calls0 = world.ncalls
            k = op[0]
            raised = None
            vals_before = {nm: world.tok(getattr(o, nm)) for nm in ('a', 'b')}
            if k == 'close' and not stack:
                continue          # the frame this token would close was already unwound by an exception
            try:
                if k == 'raise':
                    raise Boom('body')
                elif k == 'open' and op[1] == 'try':
                    stack.append(('try', None))
                elif k == 'update_getter_fails':
                    # a parameter whose getter raises (a Filename whose file has disappeared): update() fails while it collects the current values
                    import os
                    import tempfile
                    fd, path = tempfile.mkstemp(dir='/var/tmp', prefix='c05_')
                    os.close(fd)
                    o.pf = path
                    os.remove(path)
                    try:
                        o.param.update(a=world.vals[2])
                    finally:
                        o.pf = None
                elif k == 'cupdate_nonmap':
                    world.cls.param.update(5)          # not a mapping: TypeError, and the class must not be left batching
                elif k == 'update_bad':
                    o.param.update(**{n: (BAD if v == BAD else world.vals[v]) for n, v in op[1]})   # 'zz' is not a parameter
                elif k == 'close':
                    kind, cm = stack.pop()
                    if kind != 'try':
                        cm.__exit__(None, None, None)
                else:
                    world.apply(op)
            except (Exception, Abort) as e:
                raised = e
                info['raised_tokens'] += 1
                unwind(e)
            after = deferring_frames()
            survivors = [f for f in before_frames if f in after]
            calls = [e for e in world.log[n0:] if e[0] == 'call']
            # (i) still deferred inside a surrounding batch
            if survivors and calls:
                vs.append(V('runs-inside-open-batch', 'token %d %r: %d watcher call(s) while a batch/discard context opened earlier is still open; '
                            'program=%r faults=%r' % (i, op, len(calls), program, sorted(fault_calls)),
                            op=k, after_fault=info['raised_tokens'] > (1 if raised else 0) or world.faults_fired > 0))
            # (ii) a rejected update announces what it applied, no later than the raise
            if k == 'update_bad' and not before_frames and world.faults_fired == fired0 and isinstance(raised, ValueError):
                applied = []
                for n, v in op[1]:
                    if v == BAD or n == 'zz':
                        break
                    applied.append((n, v))
                for n, v in applied:
                    for s in world.specs:
                        if n in s['names'] and s['what'] == 'value':
                            # did this watcher have to hear about it? (qualifying change: ints, so != decides)
                            was = vals_before[n]
                            qualifies = (not s['onlychanged']) or was != v
                            if qualifies and not any(c[1]['w'] == s['id'] and self._has_event(c[1], n, v) for c in calls):
                                vs.append(V('update-announces-before-raise',
                                            'token %d %r raised %r but watcher %s was not told that %s became %r before the call raised; program=%r'
                                            % (i, op, raised, s['id'], n, v, program), watcher_mode=s['mode']))
            if k == 'update_bad' and raised is None:
                vs.append(V('bad-update-accepted', 'update with an out-of-bounds value did not raise: %r' % (op,)))
        # close what is still open, normally
        while stack:
            kind, cm = stack.pop()
            if kind == 'try':
                continue
            try:
                cm.__exit__(None, None, None)
            except (Exception, Abort) as e:
                unwind(e)
        info['fired'] = world.faults_fired
        info['calls'] = world.ncalls
        # (v) every change that survives to the end has been announced by now to every watcher of that parameter (a rejected value, a
        # failing trigger or a raising body must not swallow announcements that were pending); discard_events legitimately drops them
        if not fault_calls and not any(op[:2] == ['open', 'discard'] for op in program):
            calls = [e[1] for e in world.log if e[0] == 'call']
            for n in ('a', 'b'):
                final = world.tok(getattr(o, n))
                if final == 0:
                    continue
                for s in world.specs:
                    if n in s['names'] and s['what'] == 'value' and not any(self._has_event(c, n, final) for c in calls if c['w'] == s['id']):
                        vs.append(V('change-never-announced', 'program %r: %s ended as %r but watcher %s was never told' % (program, n, final, s['id']),
                                    name=n, watcher_mode=s['mode']))
        return world, vs, info

    @staticmethod
    def _has_event(rec, name, v):
        evs = rec['events']
        for e in evs:
            if isinstance(e, dict):
                if e['name'] == name and e['new'] == v:
                    return True
            elif e[0] == name and e[1] == v:
                return True
        return False

    # ---------------------------------------------------------------- probe
    PROBE = [
        ('other-parameter', lambda w: setattr(w.o, 'e', True)),      # an unrelated assignment: anything left queued would be delivered now
        ('same', lambda w: setattr(w.o, 'a', w.o.a)),
        ('change', lambda w: setattr(w.o, 'a', w.vals[(w.tok(w.o.a) + 1) % 3 if isinstance(w.tok(w.o.a), int) and w.tok(w.o.a) < 3 else 1])),
        ('trigger', lambda w: w.o.param.trigger('a')),
        ('batch', None),
        ('event', lambda w: setattr(w.o, 'e', True)),
        ('event-again', lambda w: setattr(w.o, 'e', True)),
        ('update', lambda w: w.o.param.update(a=w.vals[0], b=w.vals[1])),
        ('constant', lambda w: setattr(w.o, 'k', w.vals[1])),
        ('bad-update', lambda w: w.o.param.update(b=w.vals[2], n=BAD)),
        ('after-bad', lambda w: setattr(w.o, 'b', w.vals[0])),
    ]

    def probe(self, world):
        param = world.param
        o = world.o
        world.fault_calls = set()
        out = []
        spec = dict(id='probe', names=('a', 'b', 'e'), what='value', target='inst', mode='args', queued=False, precedence=0,
                    onlychanged=True, action=None)
        world.register(spec)
        for name, fn in self.PROBE:
            del world.log[:]
            exc = None
            try:
                if name == 'batch':
                    with param.parameterized.batch_call_watchers(o):
                        o.a = world.vals[2] if o.a is not world.vals[2] else world.vals[1]
                        inside = len(world.log)
                        o.b = world.vals[2] if o.b is not world.vals[2] else world.vals[1]
                        inside = max(inside, len(world.log))
                    out.append(('calls-inside-batch', inside))
                else:
                    fn(world)
            except Exception as e:
                exc = type(e).__name__
            trace = []
            for e in world.log:
                if e[0] == 'call':
                    r = dict(e[1])
                    r.pop('k', None)
                    trace.append(('call', r['w'], repr(r['events']), repr(sorted(r['seen'].items()))))
                else:
                    trace.append(e)
            vals = {n: world.tok(getattr(o, n)) for n in ('a', 'b', 'n', 'e', 'k')}
            out.append((name, exc, trace, sorted(vals.items(), key=lambda kv: kv[0])))
        return out

    def make_twin(self, cfg, world):
        """fresh object with the survivor's values and the same watchers (values installed before the watchers are registered)"""
        vals = {n: world.tok(getattr(world.o, n)) for n in ('a', 'b', 'n')}
        t = World([], event=True)
        for n, tk in vals.items():
            setattr(t.o, n, t.vals[tk] if isinstance(tk, int) else getattr(world.o, n))
        for s in cfg['specs']:
            s2 = dict(s)
            s2.setdefault('what', 'value'); s2.setdefault('target', 'inst'); s2.setdefault('mode', 'args')
            s2.setdefault('queued', False); s2.setdefault('precedence', 0); s2.setdefault('onlychanged', True)
            s2.setdefault('action', None)
            s2['names'] = tuple(s2['names'])
            t.specs.append(s2)
            t.register(s2)
        return t

    def probe_twin(self, cfg, world):
        """probe of a freshly built twin; it depends only on the configuration and the survivor's values, so it is computed once per such pair
        (per worker process)"""
        key = (cfg['name'], repr(sorted((n, world.tok(getattr(world.o, n))) for n in ('a', 'b', 'n'))))
        cache = self.__dict__.setdefault('_twin_cache', {})
        if key not in cache:
            cache[key] = self.probe(self.make_twin(cfg, world))
        return cache[key]

    def check_end(self, cfg, world, program, faults):
        vs = []
        o = world.o
        ctx = 'program=%r faults=%r' % (program, sorted(faults))
        if o.e is not False:
            vs.append(V('event-not-reset', 'Event parameter e is %r after the program; %s' % (o.e, ctx)))
            # put it back so that the probe compares the rest of the behaviour
        for lvl, p in (('class', world.cls.param['k']), ('instance', o.param['k'])):
            if not p.constant:
                vs.append(V('constant-flag-lost', '%s-level Parameter k is no longer constant; %s' % (lvl, ctx), level=lvl))
        cp = world.cls.param
        if cp._BATCH_WATCH or cp._events or cp._state_watchers:
            vs.append(V('class-left-batching', 'the class is left with _BATCH_WATCH=%r and %d queued event(s) after the program; %s' % (cp._BATCH_WATCH, len(cp._events), ctx)))
        if not o.param._BATCH_WATCH and (o.param._events or o.param._state_watchers):
            vs.append(V('events-left-queued', 'with no batch open, %d event(s) for %r are still queued (they would be delivered at some later unrelated assignment); %s' % (
                len(o.param._events), sorted({e.name for e in o.param._events}), ctx)))
        if vs:
            return vs
        a = self.probe_twin(cfg, world)          # before the survivor's probe changes its values
        b, a = a, self.probe(world)
        if a != b:
            for x, y in zip(a, b):
                if x != y:
                    vs.append(V('probe-differs-from-fresh-twin', 'probe step %r: survivor %r, fresh twin %r; %s' % (x[0], x, y, ctx), step=x[0]))
                    break
        return vs

    # ---------------------------------------------------------------- engine interface
    def execute(self, cfg, history):
        F = cfg.get('F', 1)
        if F > 1 and len(history) > 3:
            F = 1            # two simultaneous watcher faults are enumerated for programs of length <= 3 only
        n = 0
        vs = []
        hits = {'fault-free': 0, 'watcher-fault-fired': 0, 'token-raised': 0, 'probe': 0}
        # fault-free run first: gives the number of watcher invocations = fault positions
        todo = [()]
        seen_sets = set()
        nontrivial = False
        nt_cases = 0
        while todo:
            fs = todo.pop(0)
            if fs in seen_sets:
                continue
            seen_sets.add(fs)
            world, v, info = self.run_program(cfg, history, fs, F)
            n += 1
            if fs and info['fired'] < len(fs):
                continue          # the chosen invocation index was not reached: not a new case
            hits['watcher-fault-fired'] += info['fired']
            hits['token-raised'] += info['raised_tokens']
            if not fs:
                hits['fault-free'] += 1
            if info['fired'] or info['raised_tokens']:
                nontrivial = True
                nt_cases += 1
            if not v:
                v = self.check_end(cfg, world, history, fs)
                hits['probe'] += 1
            for x in v:
                x['key']['injected'] = len(fs)
            vs.extend(v)
            if len(fs) < F:
                start = (max(fs) + 1) if fs else 1
                for k in range(start, info['calls'] + 1):
                    todo.append(fs + (k,))
        # enabled continuations depend only on the structural nesting of the fault-free reading
        nest, has_open = self._nesting(history)
        nxt = [] if vs else self.tokens(nest, has_open, cfg)
        r = Result(vs[:4], fp=None, next_ops=nxt, outcome='%d' % n, hits=hits, nontrivial=nontrivial)
        r['n'] = n
        r['nt_extra'] = max(0, nt_cases - (1 if nontrivial else 0))
        return r

    @staticmethod
    def _nesting(history):
        d = 0
        for op in history:
            if op[0] in ('open', 'open_update'):
                d += 1
            elif op[0] == 'close' and d > 0:
                d -= 1
        return d, d > 0


HARNESS = C05()
