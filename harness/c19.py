"""C19 — time-dependent dynamic values are a pure function of time.

Explicit-state BFS over time jumps (forward, backward, repeated), reads through two instances, inspections, nested time contexts and
state push/pop over several generators and seeds, against a table keyed by (generator name, seed, time)."""
from mc.engine import Harness, Result, V
from mc.heapfp import try_fingerprint
from mc.world import reset_globals

GENS = {'a': ('g', 1), 'b': ('g', 1), 'c': ('g', 2), 'd': ('sq', 0), 'e': ('faulty', 0), 'f': ('sampled', 0)}


class Faulty:
    """a time-dependent value that cannot be produced at time 1"""
    def __init__(self, time_fn=None):
        pass

    def __call__(self):
        import param
        t = param.Dynamic.time_fn()       # (looked up at call time: the generator object is deep-copied per instance)
        if t == 1:
            raise ZeroDivisionError('no value at time 1')
        return 100 + t

    def __verif_fp__(self):
        return 'Faulty'


class C19(Harness):
    pid = 'C19'
    level = 'model_checking'
    kind = 'bfs'
    technique = ('explicit-state BFS over time jumps / reads / inspections / time contexts / state push-pop on real time-dependent generators vs. a '
                 '(generator, seed, time) -> value table filled by the first read')
    rule = ('state = (time, context stack, per-generator cache and saved stacks incl. random state: heap fingerprint; model table); transition = one '
            'operation; every read must equal the value first recorded for its (name, seed, time), inspections must show the last produced value without '
            'advancing it, contexts must restore the time, pops must restore what inspection showed at the push')
    assumptions = ('Dynamic.time_dependent = True with the global param.Time reset per execution; generators UniformRandom(name, seed) twice with the same '
                   'name and seed, once with another seed, and a SquareWave; two instances',)

    def bounds(self, tier):
        return {'micro_depth': 4 if tier == 'quick' else 5, 'macro_depth': 8 if tier == 'quick' else 10, 'times': '-1..3'}

    def configs(self, tier):
        return [{'slice': 'micro'}, {'slice': 'macro'}, {'slice': 'gseed'}]

    def depth(self, tier, cfg):
        if cfg['slice'] == 'macro':
            return 8 if tier == 'quick' else 10
        if cfg['slice'] == 'gseed':
            return 4 if tier == 'quick' else 6
        return 4 if tier == 'quick' else 5

    def fresh(self):
        import param
        import numbergen as ng
        reset_globals()
        param.random_seed = 42
        param.Dynamic.time_dependent = True
        t = param.Dynamic.time_fn
        t._pushed_state = []
        t.in_context = False
        t(0)
        t.timestep, t.until = 1.0, type(t).until          # leaving a time context stores these on the (global) instance: always have them stored
        for pn in list(t.param):
            t.param[pn]          # the global Time object outlives executions: create its per-instance Parameters once and for all
        P = type('P', (param.Parameterized,), {
            'a': param.Number(default=ng.UniformRandom(name='g', seed=1, time_dependent=True)),
            'b': param.Number(default=ng.UniformRandom(name='g', seed=1, time_dependent=True)),
            'c': param.Number(default=ng.UniformRandom(name='g', seed=2, time_dependent=True)),
            'd': param.Number(default=ng.SquareWave(duration=1.0, off_duration=1.0)),
            'e': param.Number(default=Faulty(t)),
            'f': param.Number(default=ng.TimeSampledFn(period=2.0, offset=1.0, fn=ng.SquareWave(duration=1.0, off_duration=2.0))),
        })
        return {'param': param, 't': t, 'P': P, 'i': [P(), P()]}

    def enabled(self, cfg, model):
        if cfg['slice'] == 'macro':
            # macro alphabet: jump-and-read, push/pop on one instance, nested time contexts (the table is complete after the warm-up)
            ops = [['jr', T] for T in (0, 1, 2, 3) if T != model['time']]
            if len(model['saved'][0]) < 2:
                ops.append(['push', 0])
            if model['saved'][0]:
                ops.append(['pop', 0])
            if len(model['ctx']) < 2:
                ops.append(['open'])
            if model['ctx']:
                ops.append(['close'])
                ops.append(['close_exc'])
                ops.append(['close_stop'])
            return ops
        if cfg['slice'] == 'gseed':
            # the global param.random_seed was set after the classes and instances were built and before anything is read (it is not changed
            # between reads: at an unchanged time a read returns the cached value by the statement's first clause); small alphabet
            # also here: param.trigger on a dynamic parameter (it re-announces the current value; what inspection shows afterwards is not
            # specified, but reads stay a function of the time, on this and on every other instance)
            ops = [['jump', 0], ['jump', 2], ['inc'], ['read', 0, 'a'], ['read', 1, 'a'], ['read', 0, 'b'], ['read', 0, 'c'], ['trigger', 0, 'a']]
            if model['time'] > -1:          # (down to -1: a legitimate time like any other)
                ops.append(['dec'])
            return ops
        ops = [['jump', 0], ['jump', 2], ['inc'], ['read', 0, 'a'], ['read', 1, 'a'], ['read', 0, 'b'], ['read', 0, 'c'], ['read', 1, 'd'], ['read', 0, 'e'], ['read', 0, 'f'],
               ['inspect', 0, 'a'], ['inspect', 1, 'a'], ['push', 0], ['push', 1]]
        if model['time'] > -1:          # (down to -1: a legitimate time like any other)
            ops.append(['dec'])
        if len(model['ctx']) < 2:
            ops.append(['open'])
        if model['ctx']:
            ops.append(['close'])
            ops.append(['close_exc'])
            ops.append(['close_stop'])
        for i in (0, 1):
            if model['saved'][i]:
                ops.append(['pop', i])
        return ops

    def execute(self, cfg, history):
        w = self.fresh()
        param, t = w['param'], w['t']
        model = {'time': 0, 'ctx': [], 'table': {}, 'last': [{}, {}], 'saved': [[], []], 'gseed': 42}
        if cfg['slice'] == 'gseed':
            param.random_seed = model['gseed'] = 43
        vs = []
        hits = {}
        fp_pre = None
        nxt = []
        try:
            if cfg['slice'] == 'macro':
                for T in (3, 2, 1, 0):       # warm-up: fill the table for every time of the alphabet
                    t(T)
                    for i in (0, 1):
                        for pn in ('a', 'c'):
                            v = getattr(w['i'][i], pn)
                            key = (GENS[pn], T, model['gseed'])
                            if model['table'].setdefault(key, v) != v:
                                vs.append(V('pure-function-of-time', 'warm-up: instance %d %s at time %r gave %r, other instance gave %r' % (i, pn, T, v, model['table'][key]), gen=pn, after='warmup'))
                            model['last'][i][pn] = v
                model['time'] = 0
            for step, op in enumerate(history):
                last = step == len(history) - 1
                ctx = 'history %r' % (history,)
                k = op[0]
                if k == 'jump':
                    t(op[1])
                    model['time'] = op[1]
                elif k == 'jr':
                    t(op[1])
                    model['time'] = op[1]
                    v = getattr(w['i'][0], 'a')
                    key = (GENS['a'], op[1], model['gseed'])
                    hits['revisit'] = 1
                    if last and model['table'][key] != v:
                        vs.append(V('pure-function-of-time', '%s: a at time %r gave %r, but the value first produced for that name/seed/time was %r' % (
                            ctx, op[1], v, model['table'][key]), gen='a', after=history[-2][0] if len(history) > 1 else 'start'))
                    model['last'][0]['a'] = v
                elif k == 'inc':
                    t.__iadd__(1)
                    model['time'] += 1
                elif k == 'dec':
                    t.__isub__(1)
                    model['time'] -= 1
                elif k == 'open':
                    t.__enter__()
                    model['ctx'].append(model['time'])
                elif k == 'close':
                    t.__exit__(None, None, None)
                    model['time'] = model['ctx'].pop()
                elif k == 'trigger':
                    # announcing a dynamic parameter neither advances nor replaces its generator
                    w['i'][op[1]].param.trigger(op[2])
                elif k == 'close_stop':
                    # the block is left through a StopIteration (a bare next() past `until`): swallowed by the context, which still restores the time
                    e = StopIteration()
                    t.__exit__(StopIteration, e, None)
                    model['time'] = model['ctx'].pop()
                elif k == 'close_exc':
                    e = KeyError('the block is left through an exception')
                    t.__exit__(KeyError, e, None)
                    model['time'] = model['ctx'].pop()
                elif k == 'read':
                    def rd():
                        try:
                            return getattr(w['i'][op[1]], op[2])
                        except Exception as e:          # (the Faulty generator raises ZeroDivisionError at time 1)
                            return 'EXC:' + type(e).__name__
                    v = rd()
                    v2 = rd()
                    key = (GENS[op[2]], model['time'], model['gseed'])
                    hits['read'] = 1
                    if last and v2 != v:
                        vs.append(V('repeated-read', '%s: two reads of %s at time %r gave %r then %r' % (ctx, op[2], model['time'], v, v2), gen=op[2]))
                    if key in model['table']:
                        hits['revisit'] = 1
                        if last and model['table'][key] != v:
                            vs.append(V('pure-function-of-time', '%s: %s (name %s, seed %s) at time %r gave %r, but the value first produced for that '
                                        'name/seed/time was %r' % (ctx, op[2], key[0][0], key[0][1], model['time'], v, model['table'][key]), gen=op[2],
                                        after=history[-2][0] if len(history) > 1 else 'start'))
                    else:
                        model['table'][key] = v
                    if not (isinstance(v, str) and v.startswith('EXC')):
                        model['last'][op[1]][op[2]] = v
                elif k == 'inspect':
                    v = w['i'][op[1]].param.inspect_value(op[2])
                    exp = model['last'][op[1]].get(op[2])
                    hits['inspect'] = 1
                    if last and v != exp:
                        vs.append(V('inspect-shows-last', '%s: inspect_value(%s) gave %r, the last produced value is %r' % (ctx, op[2], v, exp), gen=op[2]))
                elif k == 'push':
                    w['i'][op[1]].param._state_push()
                    model['saved'][op[1]].append(dict(model['last'][op[1]]))
                elif k == 'pop':
                    w['i'][op[1]].param._state_pop()
                    model['last'][op[1]] = model['saved'][op[1]].pop()
                    if last:
                        for pn in ('a', 'b', 'c', 'd', 'e', 'f'):
                            got = w['i'][op[1]].param.inspect_value(pn)
                            if got != model['last'][op[1]].get(pn):
                                vs.append(V('pop-restores', '%s: after pop, inspect_value(%s) is %r, at the push it was %r' % (ctx, pn, got, model['last'][op[1]].get(pn)), gen=pn))
                if last and t() != model['time']:
                    vs.append(V('time-restored', '%s: time is %r, expected %r' % (ctx, t(), model['time']), op=k))
            fp_pre = None
            if not vs:
                fp_pre = try_fingerprint([('t', t), ('i0', w['i'][0]), ('i1', w['i'][1])],
                                         extra=repr((model['time'], model['gseed'], model['ctx'], sorted(model['table'], key=repr), model['last'], model['saved'])))
            # closing probe: every generator read now must agree with the table (reads are pure, so this does not perturb the model)
            if not vs:
                for i in (0, 1):
                    for pn in ('a', 'b', 'c'):
                        try:
                            v = getattr(w['i'][i], pn)
                        except Exception as e:
                            vs.append(V('read-raises', 'history %r then reading %s of instance %d at time %r raised %r' % (history, pn, i, model['time'], e), gen=pn, exc=type(e).__name__))
                            break
                        key = (GENS[pn], model['time'], model['gseed'])
                        if key in model['table'] and model['table'][key] != v:
                            vs.append(V('pure-function-of-time', 'history %r then reading %s of instance %d at time %r gave %r; first produced value for that name/seed/time: %r' % (
                                history, pn, i, model['time'], v, model['table'][key]), gen=pn, after='probe'))
                            break
            fp = None
            nxt = []
            if not vs:
                nxt = self.enabled(cfg, model)
        finally:
            w['param'].Dynamic.time_dependent = False
            t._pushed_state = []
            t.in_context = False
            t(0)
        return Result(vs[:3], fp=fp_pre if not vs else None, next_ops=nxt, outcome=repr((model['time'], model['ctx'])), hits=hits)


HARNESS = C19()
