"""C06 — depends(watch=True) methods run exactly once per change of a dependency.

Configuration enumeration (hierarchy shape x declaration of method m at every level x dependency sets incl. slot specs and
helper methods) x all programs up to a length bound on one instance, against an independent MRO-based resolver."""
import itertools

from mc.engine import Harness, Result, V
from mc.world import reset_globals

SETS = [('x',), ('y',), ('x', 'y'), ('n:bounds',), ('x', 'n:bounds'), ('h',), ('x', 'h')]
SETS_SMALL = [('x',), ('x', 'y'), ('n:bounds',), ('y', 'h')]
B1, B2 = (0, 5), (1, 5)


def decl_options(sets, modes=('watch',)):
    out = [None, 'plain']
    for s in sets:
        for m in modes:
            out.append([m, list(s)])
    return out


class C06(Harness):
    pid = 'C06'
    level = 'model_checking'
    kind = 'enum'
    technique = ('exhaustive enumeration of class hierarchies x dependency declarations x operation programs on real classes; call counts '
                 'compared with an independent MRO-based dependency resolver')
    rule = ('state = (hierarchy configuration, program prefix); transition = one operation on the instance; every program up to the length bound is '
            'run from a fresh instance and the number of invocations of m after each step compared with the resolver; non-trivial = configuration '
            'whose effective m is a watching method')
    assumptions = ('parameters x, y (generic), n (bounded Number, for the slot spec n:bounds), helper method h with its own non-watching depends; '
                   'shapes: single, chain of 2/3, diamond, helper-override; change judged as for changes-only watchers (integer values)',)

    def bounds(self, tier):
        return {'program_length': 2 if tier == 'quick' else 3, 'configs': len(self.cases(tier))}

    def cases(self, tier):
        L = 2 if tier == 'quick' else 3
        out = []
        roots = [[m, list(s)] for s in SETS for m in ('watch', 'on_init', 'queued')]
        sub = decl_options(SETS)
        sub_small = decl_options(SETS_SMALL)
        for r in roots:
            out.append({'shape': 'single', 'm': [r], 'L': L})
            for a in sub:
                out.append({'shape': 'chain2', 'm': [r, a], 'L': L})
        roots_small = [[m, list(s)] for s in (SETS if tier == 'thorough' else SETS_SMALL) for m in ('watch', 'on_init')]
        mids = sub if tier == 'thorough' else sub_small
        for r in roots_small:
            for a in mids:
                for b in mids:
                    out.append({'shape': 'chain3', 'm': [r, a, b], 'L': L})
                    out.append({'shape': 'diamond', 'm': [r, a, b, None], 'L': L})
            for a in sub_small:
                for d in ([ 'watch', ['x']], 'plain'):
                    out.append({'shape': 'diamond', 'm': [r, a, a, d], 'L': L})
        # helper override: the subclass overrides only h (different dependencies), or both
        for r in [[m, list(s)] for s in (('h',), ('x', 'h'), ('y', 'h')) for m in ('watch', 'on_init')]:
            for hsub in (['x'], ['x', 'y'], ['n:bounds']):
                out.append({'shape': 'chain2', 'm': [r, None], 'h': [['y'], hsub], 'L': L})
                out.append({'shape': 'chain3', 'm': [r, None, None], 'h': [['y'], None, hsub], 'L': L})
        # an on_init method whose body assigns a parameter that another watching method (declared later, or in a subclass) depends on
        for where in ('same', 'sub'):
            for dep2 in (['y'], ['x', 'y']):
                out.append({'shape': 'oninit_assign', 'where': where, 'dep2': dep2, 'm': [['on_init', ['x']]], 'L': 1})
        # a dependent method that ends by raising param.Skip ("nothing to report"): swallowed on every dispatch path, counted as a call
        for s in (('x',), ('x', 'n:bounds'), ('x', 'y')):
            for mode in ('watch', 'queued'):
                out.append({'shape': 'single', 'm': [[mode, list(s)]], 'L': L, 'skip': True})
        # the dependent method is declared on a plain (non-Parameterized) mixin class, listed before or after the Parameterized base
        for r in [[m, list(s)] for s in (('x',), ('x', 'y'), ('n:bounds',)) for m in ('watch', 'on_init')]:
            for first in (True, False):
                out.append({'shape': 'mixin', 'm': [None, r], 'L': L, 'mixin_first': first})
        # function form with Parameter-object dependencies
        for s in (('x',), ('x', 'y')):
            out.append({'shape': 'function', 'm': [['watch', list(s)]], 'L': L})
        return out

    # ------------------------------------------------------------ build real classes
    def build(self, cfg, log):
        import param
        shape = cfg['shape']
        hdecl = cfg.get('h') or [['y']] + [None] * 3

        def mk_m(level, decl):
            def m(self):
                log.append(('m', level, id(self)))
                if cfg.get('skip'):
                    raise param.Skip()
            m.__name__ = 'm'
            if decl == 'plain':
                return m
            mode, specs = decl
            kw = {'watch': True}
            if mode == 'on_init':
                kw['on_init'] = True
            if mode == 'queued':
                kw['watch'] = 'queued'
            return param.depends(*specs, **kw)(m)

        def mk_h(level, specs):
            def h(self):
                log.append(('h', level, id(self)))
            h.__name__ = 'h'
            return param.depends(*specs)(h)

        def ns_for(level):
            ns = {}
            d = cfg['m'][level] if level < len(cfg['m']) else None
            if d is not None:
                ns['m'] = mk_m(level, d)
            hd = hdecl[level] if level < len(hdecl) else None
            if hd is not None:
                ns['h'] = mk_h(level, hd)
            return ns
        base_ns = {'x': param.Parameter(default=0), 'y': param.Parameter(default=0), 'n': param.Number(default=1, bounds=(0, 10))}
        if shape != 'function':
            base_ns.update(ns_for(0))

            # a second dependent method next to m, never overridden: it depends on y and on n:bounds and is counted on its own
            def m2(self):
                log.append(('m2', 0, id(self)))
            base_ns['m2'] = param.depends('y', 'n:bounds', watch=True)(m2)
        Base = type('Base', (param.Parameterized,), base_ns)
        if shape in ('single', 'function'):
            return Base, [Base]
        if shape == 'mixin':
            Mixin = type('Mixin', (), ns_for(1))
            K = type('K', (Mixin, Base) if cfg.get('mixin_first') else (Base, Mixin), {})
            return K, [K, Mixin, Base]
        if shape == 'chain2':
            A = type('A', (Base,), ns_for(1))
            return A, [A, Base]
        if shape == 'chain3':
            A = type('A', (Base,), ns_for(1))
            B = type('B', (A,), ns_for(2))
            return B, [B, A, Base]
        if shape == 'diamond':
            Lc = type('L', (Base,), ns_for(1))
            Rc = type('R', (Base,), ns_for(2))
            D = type('D', (Lc, Rc), ns_for(3))
            return D, [D, Lc, Rc, Base]
        raise AssertionError(shape)

    # ------------------------------------------------------------ independent resolver
    def resolve(self, cfg):
        """-> (watching?, on_init?, set of (name, what)) for the MRO-effective m"""
        shape = cfg['shape']
        order = {'single': [0], 'function': [0], 'mixin': [1, 0], 'chain2': [1, 0], 'chain3': [2, 1, 0], 'diamond': [3, 1, 2, 0]}[shape]
        hdecl = cfg.get('h') or [['y']] + [None] * 3
        eff = None
        mlvl = None
        for lvl in order:
            d = cfg['m'][lvl] if lvl < len(cfg['m']) else None
            if d is not None:
                eff = d
                mlvl = lvl
                break
        heff = None
        for lvl in order:
            hd = hdecl[lvl] if lvl < len(hdecl) else None
            if hd is not None:
                heff = hd
                break
        if eff == 'plain' or eff is None:
            return False, False, set(), mlvl
        mode, specs = eff

        def atom(s):
            return (s.split(':')[0], s.split(':')[1]) if ':' in s else (s, 'value')
        deps = set()
        for s in specs:
            if s == 'h':
                deps |= {atom(t) for t in heff}
            else:
                deps.add(atom(s))
        return True, mode == 'on_init', deps, mlvl

    OPS = [['set', 'x', 1], ['set', 'x', 0], ['set', 'y', 1], ['update', [['x', 2], ['y', 2]]], ['update', [['x', 0]]], ['batch', [['x', 3], ['y', 3]]],
           ['bounds', 1], ['bounds', 0], ['batchmix', None], ['batchupd', None], ['batchraise', None], ['batchslot', None], ['batchfix', None]]

    def apply(self, param, obj, op, st):
        k = op[0]
        if k == 'set':
            setattr(obj, op[1], op[2])
        elif k == 'update':
            obj.param.update(**{n: v for n, v in op[1]})
        elif k == 'batch':
            with param.parameterized.batch_call_watchers(obj):
                for n, v in op[1]:
                    setattr(obj, n, v)
        elif k == 'bounds':
            obj.param.n.bounds = (B1, B2)[op[1]] if op[1] else (0, 10)
        elif k == 'batchmix':
            with param.parameterized.batch_call_watchers(obj):
                obj.x = 7
                obj.y = 7
        elif k == 'batchupd':
            with param.parameterized.batch_call_watchers(obj):
                obj.param.update(x=9)
                obj.y = 9
                obj.x = 10
        elif k == 'batchraise':
            try:
                with param.parameterized.batch_call_watchers(obj):
                    obj.x = 11
                    obj.y = 11
                    raise KeyError('body')
            except KeyError:
                pass
        elif k == 'batchslot':
            with param.parameterized.batch_call_watchers(obj):
                obj.x = 8
                obj.param.n.bounds = (2, 8)
        elif k == 'batchfix':
            # a queued user watcher corrects the value it is told about: the flush of the batch needs a second round,
            # in which the method sees a second, separate change of x
            def fix(event):
                if event.new == 20:
                    obj.x = 21
            h = obj.param.watch(fix, ['x'], queued=True)
            try:
                with param.parameterized.batch_call_watchers(obj):
                    obj.x = 20
            finally:
                obj.param.unwatch(h)

    def changed(self, op, st):
        """model: which (name, what) change; updates st"""
        k = op[0]
        ch = set()

        def setv(n, v):
            if st[n] != v:
                ch.add((n, 'value'))
            st[n] = v
        if k == 'set':
            setv(op[1], op[2])
        elif k in ('update', 'batch'):
            for n, v in op[1]:
                setv(n, v)
        elif k == 'bounds':
            nb = (B1, B2)[op[1]] if op[1] else (0, 10)
            if st['bounds'] != nb:
                ch.add(('n', 'bounds'))
            st['bounds'] = nb
        elif k == 'batchfix':
            setv('x', 20)
            setv('x', 21)
        elif k == 'batchmix':
            setv('x', 7)
            setv('y', 7)
        elif k == 'batchupd':
            setv('x', 9)
            setv('y', 9)
            setv('x', 10)
        elif k == 'batchraise':
            setv('x', 11)
            setv('y', 11)
        elif k == 'batchslot':
            setv('x', 8)
            if st['bounds'] != (2, 8):
                ch.add(('n', 'bounds'))
            st['bounds'] = (2, 8)
        return ch

    def run_oninit_assign(self, cfg):
        import param
        reset_globals()
        log = []

        def m(self):
            log.append('m')
            self.y = 5
        m = param.depends('x', watch=True, on_init=True)(m)

        def m2(self):
            log.append('m2')
        m2 = param.depends(*cfg['dep2'], watch=True)(m2)
        ns = {'x': param.Parameter(default=0), 'y': param.Parameter(default=0), 'm': m}
        if cfg['where'] == 'same':
            ns['m2'] = m2
            K = type('Base', (param.Parameterized,), ns)
        else:
            Base = type('Base', (param.Parameterized,), ns)
            K = type('A', (Base,), {'m2': m2})
        vs = []
        key = dict(shape='oninit_assign', where=cfg['where'], dep2='+'.join(cfg['dep2']))
        obj = K()
        if log.count('m') != 1 or log.count('m2') != 1:
            vs.append(V('on-init-cascade', 'construction: m (on_init, assigns y) ran %d times, m2 (depends on %s) ran %d times; expected 1 and 1 (log %r)' % (
                log.count('m'), cfg['dep2'], log.count('m2'), log), **key))
        else:
            del log[:]
            obj.x = 3          # m runs (y is already 5: unchanged), m2 only if it depends on x
            exp2 = 1 if 'x' in cfg['dep2'] else 0
            if log.count('m') != 1 or log.count('m2') != exp2:
                vs.append(V('call-count', 'after x=3: m ran %d times, m2 ran %d times; expected 1 and %d' % (log.count('m'), log.count('m2'), exp2), **key))
        return Result(vs, outcome='oninit_assign', hits={'programs': 1}, nontrivial=True)

    def run_case(self, cfg):
        if cfg['shape'] == 'oninit_assign':
            return self.run_oninit_assign(cfg)
        import param
        reset_globals()
        log = []
        vs = []
        hits = {'programs': 0, 'expected-call': 0, 'expected-silence': 0}
        try:
            K, mro = self.build(cfg, log)
        except Exception as e:
            return Result([V('class-creation-raises', '%r: %r' % (cfg, e), shape=cfg['shape'])], outcome='x')
        watching, on_init, deps, lvl = self.resolve(cfg)
        key = dict(shape=cfg['shape'], decl=repr(cfg['m']), h=repr(cfg.get('h')))
        n_exec = 0
        fn_log = []
        double = []
        for ctor_kw in ({}, {'x': 5}):
            for prog in self.programs(cfg['L']):
                n_exec += 1
                del log[:]
                try:
                    obj = K(**ctor_kw)
                except Exception as e:
                    vs.append(V('construction-raises', 'K(%s) raised %r' % (ctor_kw, e), exc=type(e).__name__, **key))
                    break
                if cfg['shape'] == 'function':
                    del fn_log[:]

                    def f(*a, **k):
                        log.append(('m', 0, id(obj)))
                    specs = cfg['m'][0][1]
                    param.depends(*[obj.param[s] for s in specs], watch=True)(f)
                calls = [e for e in log if e[0] == 'm']
                exp0 = 1 if (watching and on_init) else 0
                if len(calls) != exp0:
                    vs.append(V('on-init-count', 'construction %r invoked m %d times, expected %d' % (ctor_kw, len(calls), exp0), got=len(calls), **key))
                    break
                st = {'x': ctor_kw.get('x', 0), 'y': 0, 'bounds': (0, 10)}
                bad = False
                for i, op in enumerate(prog):
                    del log[:]
                    try:
                        self.apply(param, obj, op, st)
                    except Exception as e:
                        vs.append(V('op-raises', '%r raised %r' % (op, e), op=op[0], **key))
                        bad = True
                        break
                    ch = self.changed(op, st)
                    exp = 1 if (watching and (ch & deps)) else 0
                    if op[0] == 'batchfix':
                        exp *= 2          # two separate changes of x, dispatched in two rounds of one flush
                    calls = [e for e in log if e[0] == 'm']
                    hits['expected-call' if exp else 'expected-silence'] += 1
                    if (len(calls) == 2 and exp == 1 and op[0] == 'batchslot' and {w for _, w in (ch & deps)} == {'value', 'bounds'}
                            and len({c[1:] for c in calls}) == 1):
                        # recorded separately and exploration continues: the state is still consistent (see known_findings.json)
                        if not double:
                            double.append(V('call-count', 'one batch changing a value dependency and a slot dependency of m invoked it twice (program %r); '
                                            'm depends on %s' % (prog, sorted(deps)), op=op[0], got=2, expected=1, kinds='value+slot in one batch'))
                        continue
                    calls2 = [e for e in log if e[0] == 'm2']
                    exp2 = 1 if (cfg['shape'] != 'function' and (ch & {('y', 'value'), ('n', 'bounds')})) else 0
                    if len(calls2) != exp2:
                        vs.append(V('call-count', 'after %r (program %r, ctor %r): the second method m2 (depends on y, n:bounds) was invoked %d times, expected %d; changed %s' % (
                            op, prog, ctor_kw, len(calls2), exp2, sorted(ch)), op=op[0], got=len(calls2), expected=exp2, method='m2', **key))
                        bad = True
                        break
                    if len(calls) != exp:
                        vs.append(V('call-count', 'after %r (program %r, ctor %r): m invoked %d times, expected %d; effective m declared at level %s depends on %s, '
                                    'changed %s' % (op, prog, ctor_kw, len(calls), exp, lvl, sorted(deps), sorted(ch)),
                                    op=op[0], got=len(calls), expected=exp, **key))
                        bad = True
                        break
                    if calls and (calls[0][1] != lvl or calls[0][2] != id(obj)):
                        vs.append(V('wrong-method', 'after %r: the function declared at level %s ran (self ok: %s), MRO-effective is level %s' % (
                            op, calls[0][1], calls[0][2] == id(obj), lvl), op=op[0], **key))
                        bad = True
                        break
                hits['programs'] += 1
                if bad:
                    break
            if vs:
                break
        # method_dependencies agrees with the resolver
        if cfg['shape'] == 'function':
            watching = True
        if not vs and watching and cfg['shape'] != 'function':
            obj = K()
            got = {(p.name, p.what) for p in obj.param.method_dependencies('m')}
            if got != deps:
                vs.append(V('method-dependencies', 'method_dependencies(m) = %s, resolver says %s' % (sorted(got), sorted(deps)), **key))
        vs = double + vs
        r = Result(vs[:3], outcome='%s/%s' % (cfg['shape'], watching), hits=hits, nontrivial=watching)
        r['n'] = max(1, n_exec)
        return r

    def programs(self, L):
        out = []
        for n in range(1, L + 1):
            out.extend(list(p) for p in itertools.product(self.OPS, repeat=n))
        return out


HARNESS = C06()
