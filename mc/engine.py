"""Exploration engine: level-synchronous BFS over operation histories of the
real implementation (explicit-state search with replay-from-scratch), and
bounded-exhaustive case enumeration.  Nothing is sampled: VERIF_SEED only
permutes the order in which the same set of executions is run.
"""
import hashlib
import json
import multiprocessing as mp
import os
import random
import sys
import time
import traceback
from collections import Counter

from . import pin

NPROC = int(os.environ.get('VERIF_NPROC', '0')) or min(16, os.cpu_count() or 1)
MAX_REPORT = int(os.environ.get('VERIF_MAX_REPORT', '8'))          # distinct VIOLATION lines printed per run


def V(clause, detail, **key):
    """Build a violation record. `key` = the normalised features that identify
    *what* fails (used to tell a listed known finding from a new violation)."""
    return {'clause': clause, 'key': {k: key[k] for k in sorted(key)}, 'detail': str(detail)[:600]}


class Result(dict):
    """violations, fp, next_ops, outcome, hits, nontrivial"""

    def __init__(self, violations=(), fp=None, next_ops=(), outcome='', hits=None, nontrivial=True, obs=None):
        super().__init__(violations=list(violations), fp=fp, next_ops=list(next_ops),
                         outcome=outcome, hits=dict(hits or {}), nontrivial=bool(nontrivial), obs=obs)


class Harness:
    pid = 'C00'
    level = 'model_checking'       # evidence level
    kind = 'bfs'                   # 'bfs' or 'enum'
    technique = ''
    rule = ''
    assumptions = ()

    # ---- bfs interface
    def configs(self, tier):
        return [{}]

    def depth(self, tier, config):
        return 3

    def execute(self, config, history):
        raise NotImplementedError

    # ---- enum interface
    def cases(self, tier):
        return []

    def run_case(self, case):
        raise NotImplementedError

    def bounds(self, tier):
        return {}

    # optional: cheaper extra passes run after the main search (list of (name, fn(tier)->dict))
    def extra(self, tier):
        return {}


_H = None


def _digest(x):
    return hashlib.sha1(json.dumps(x, sort_keys=True, default=repr).encode()).hexdigest()[:16]


def _safe_exec(kind, item):
    try:
        if kind == 'bfs':
            cfg, hist = item
            r = _H.execute(cfg, hist)
        else:
            r = _H.run_case(item)
        if not isinstance(r, dict):
            raise TypeError('harness returned %r' % (r,))
        return r
    except BaseException as e:   # harness bug: never turn it into a verdict
        if isinstance(e, (KeyboardInterrupt, SystemExit)):
            raise
        return {'harness_error': ''.join(traceback.format_exception(type(e), e, e.__traceback__))[-3000:],
                'violations': [], 'fp': None, 'next_ops': [], 'outcome': 'HARNESS-ERROR', 'hits': {},
                'nontrivial': False, 'obs': None}


def _work(chunk):
    kind, items = chunk
    out = []
    for it in items:
        r = _safe_exec(kind, it)
        r.pop('obs', None)
        out.append(r)
    return out


def _chunks(items, n):
    for i in range(0, len(items), n):
        yield items[i:i + n]


class KnownFindings:
    def __init__(self, pid):
        self.path = os.path.join(pin.VERIF, 'known_findings.json')
        self.entries = []
        if os.path.exists(self.path):
            data = json.load(open(self.path))
            self.entries = [e for e in data.get('findings', []) if e.get('property') == pid]
        self.counts = Counter()

    def match(self, v):
        for i, e in enumerate(self.entries):
            if e.get('clause') != v['clause']:
                continue
            m = e.get('match', {})
            if all(v['key'].get(k) == val for k, val in m.items()):
                self.counts[i] += 1
                return e
        return None


def run(harness, tier, seed, replay=None):
    global _H
    _H = harness
    t0 = time.time()
    pid = harness.pid
    budget = float(os.environ.get('VERIF_BUDGET_S', '0')) or None
    known = KnownFindings(pid)
    rng = random.Random(seed)
    stats = dict(evaluations=0, transitions=0, states=0, hits=Counter(), outcomes=Counter(),
                 nontrivial=set(), samples=[], harness_errors=[], capped=None, depth_completed={},
                 unmerged=0)
    unknown = {}      # (clause,key-digest) -> (violation, item)
    known_hits = Counter()

    ctx = mp.get_context('fork')
    pool = ctx.Pool(NPROC, maxtasksperchild=200) if NPROC > 1 else None

    def run_items(kind, items):
        rng.shuffle(items)
        if not items:
            return []
        size = 1 if len(items) < 4000 else max(1, min(64, len(items) // (NPROC * 8) or 1))
        chunks = [(kind, c) for c in _chunks(items, size)]
        if pool is None:
            res = [_work(c) for c in chunks]
        else:
            res = pool.map(_work, chunks)
        out = []
        for (k, c), rs in zip(chunks, res):
            out.extend(zip(c, rs))
        return out

    def absorb(kind, item, r):
        stats['evaluations'] += r.get('n', 1)
        stats['nt_extra'] = stats.get('nt_extra', 0) + r.get('nt_extra', 0)
        if r.get('harness_error'):
            stats['harness_errors'].append({'item': item, 'error': r['harness_error']})
            return
        for k, n in r['hits'].items():
            stats['hits'][k] += n
        stats['outcomes'][r['outcome']] += 1
        if r['nontrivial']:
            stats['nontrivial'].add(r.get('fp') or _digest(item))
        for v in r['violations']:
            e = known.match(v)
            if e is not None:
                continue
            d = (v['clause'], _digest(v['key']))
            if d not in unknown:
                unknown[d] = (v, item)

    try:
        if harness.kind == 'enum':
            cases = list(harness.cases(tier))
            stats['samples'] = cases[:2] + cases[len(cases) // 2: len(cases) // 2 + 1] + cases[-1:]
            B = 20000
            for part in _chunks(cases, B):
                for item, r in run_items('enum', list(part)):
                    absorb('enum', item, r)
                if budget and time.time() - t0 > budget and stats['evaluations'] < len(cases):
                    stats['capped'] = 'time budget %ss after %d of %d cases' % (budget, stats['evaluations'], len(cases))
                    break
            stats['states'] = len(stats['nontrivial'])
            stats['transitions'] = stats['evaluations']
        else:
            cfgs = list(harness.configs(tier))
            seen = set()
            dump = {}
            frontier = []
            # level 0
            lvl = run_items('bfs', [(c, []) for c in cfgs])
            for (cfg, hist), r in lvl:
                absorb('bfs', (cfg, hist), r)
                ci = _digest(cfg)
                fp = r.get('fp')
                key = (ci, fp) if fp is not None else (ci, 'H' + _digest(hist))
                if key not in seen:
                    seen.add(key)
                    if harness.depth(tier, cfg) > 0 and not r.get('harness_error'):
                        frontier.append((cfg, hist, r['next_ops']))
            if cfgs:
                stats['samples'].append({'config': cfgs[0], 'history': []})
            depth = 0
            while frontier:
                depth += 1
                cands = []
                for cfg, hist, ops in frontier:
                    if depth <= harness.depth(tier, cfg):
                        for op in ops:
                            cands.append((cfg, hist + [op]))
                if not cands:
                    break
                if budget and time.time() - t0 > budget:
                    stats['capped'] = 'time budget %ss reached before depth %d' % (budget, depth)
                    break
                frontier = []
                lvl = run_items('bfs', cands)
                if lvl:
                    stats['samples'].append({'config': lvl[0][0][0], 'history': lvl[0][0][1]})
                for (cfg, hist), r in lvl:
                    stats['transitions'] += 1
                    absorb('bfs', (cfg, hist), r)
                    if r.get('harness_error'):
                        continue
                    ci = _digest(cfg)
                    fp = r.get('fp')
                    if fp is None:
                        stats['unmerged'] += 1
                    key = (ci, fp) if fp is not None else (ci, 'H' + _digest(hist))
                    if os.environ.get('VERIF_DUMP_STATES'):
                        dump[ci + json.dumps(hist)] = fp
                    if key in seen:
                        continue
                    seen.add(key)
                    if r['next_ops'] and depth < harness.depth(tier, cfg):
                        frontier.append((cfg, hist, r['next_ops']))
                stats['depth_completed'] = depth
                if len(unknown) >= MAX_REPORT:
                    stats['capped'] = 'stopped after depth %d: %d distinct violations' % (depth, len(unknown))
                    break
            stats['states'] = len(seen)
            stats['samples'] = stats['samples'][:2] + stats['samples'][-2:]
            if os.environ.get('VERIF_DUMP_STATES'):
                with open(os.environ['VERIF_DUMP_STATES'], 'w') as f:
                    json.dump(dump, f)
    finally:
        if pool is not None:
            pool.terminate()
            pool.join()

    extra = {}
    try:
        extra = harness.extra(tier) or {}
    except Exception:
        stats['harness_errors'].append({'item': 'extra', 'error': traceback.format_exc()[-2000:]})

    # ---- report
    rc = 0
    lines = []
    if stats['harness_errors']:
        rc = 2
        e = stats['harness_errors'][0]
        sys.stderr.write('HARNESS-ERROR property=%s executions=%d first=%s\n%s\n' % (
            pid, len(stats['harness_errors']), json.dumps(e['item'], default=repr)[:400], e['error']))
    confirmed = 0
    for (clause, kd), (v, item) in sorted(unknown.items())[:MAX_REPORT]:
        # determinism: re-execute twice in this (parent) process before reporting
        again = []
        for _ in range(2):
            r = _safe_exec(harness.kind, item)
            again.append(sorted((x['clause'], _digest(x['key'])) for x in r['violations']))
        if again[0] != again[1] or (clause, kd) not in again[0]:
            rc = 2
            sys.stderr.write('HARNESS-ERROR property=%s non-deterministic violation %s on %s\n' % (
                pid, clause, json.dumps(item, default=repr)[:400]))
            continue
        path = write_replay(harness, item, v)
        lines.append('VIOLATION property=%s replay=%s' % (pid, path))
        sys.stderr.write('  clause=%s key=%s\n  detail=%s\n' % (clause, json.dumps(v['key']), v['detail']))
        confirmed += 1
    if confirmed and rc == 0:
        rc = 1
    for i, e in enumerate(known.entries):
        if known.counts[i]:
            print('KNOWN-FINDING: property=%s %s (%d explored executions)' % (pid, e.get('what', e.get('clause')), known.counts[i]))
    for ln in lines:
        print(ln)

    cov = {
        'exhaustive': stats['capped'] is None and rc != 2,
        'evaluations': stats['evaluations'],
        'distinct_nontrivial': len(stats['nontrivial']) + stats.get('nt_extra', 0),
        'rule': harness.rule,
        'samples': stats['samples'] or [{}],
        'distinct_outcomes': len(stats['outcomes']),
        'oracle_clause_hits': dict(stats['hits']),
        'bounds': harness.bounds(tier),
        'known_findings_matched': {known.entries[i].get('id', str(i)): n for i, n in known.counts.items()},
        'workers': NPROC,
    }
    if harness.level == 'model_checking':
        cov.update(states=max(1, stats['states']), transitions=max(1, stats['transitions']),
                   traces_validated_against_impl=stats['evaluations'])
    if harness.kind == 'bfs':
        cov['depth_completed'] = stats['depth_completed']
        cov['states_not_merged'] = stats['unmerged']
    if stats['capped']:
        cov['cap'] = stats['capped']
    cov.update(extra)
    ev = {
        'property_id': pid, 'tier': tier, 'seed': seed, 'level': harness.level,
        'coverage': cov, 'assumptions': list(harness.assumptions),
        'wall_s': round(time.time() - t0, 2), 'violations': confirmed,
    }
    evdir = os.environ.get('VERIF_EVIDENCE_DIR') or os.path.join(pin.VERIF, 'evidence')
    os.makedirs(evdir, exist_ok=True)
    with open(os.path.join(evdir, pid + '.json'), 'w') as f:
        json.dump(ev, f, indent=1, default=repr)
    print('%s tier=%s seed=%d evaluations=%d states=%d transitions=%d outcomes=%d known=%d violations=%d wall=%.1fs%s' % (
        pid, tier, seed, stats['evaluations'], stats['states'], stats['transitions'], len(stats['outcomes']),
        sum(known.counts.values()), confirmed, time.time() - t0, ' CAP: ' + stats['capped'] if stats['capped'] else ''))
    return rc


def write_replay(harness, item, v):
    d = os.path.join(pin.VERIF, 'replays', harness.pid)
    os.makedirs(d, exist_ok=True)
    body = {'property': harness.pid, 'kind': harness.kind, 'item': item, 'clause': v['clause'],
            'key': v['key'], 'detail': v['detail']}
    name = _digest([body['item'], body['clause'], body['key']]) + '.json'
    path = os.path.join(d, name)
    with open(path, 'w') as f:
        json.dump(body, f, indent=1, default=repr)
    return path


def replay(harness, path):
    global _H
    _H = harness
    body = json.load(open(path))
    r = _safe_exec(body['kind'], body['item'])
    if r.get('harness_error'):
        sys.stderr.write(r['harness_error'])
        return 2
    print(json.dumps({'item': body['item'], 'violations': r['violations'], 'obs': r.get('obs')}, indent=1, default=repr))
    hit = [x for x in r['violations'] if x['clause'] == body['clause'] and x['key'] == body['key']]
    if hit:
        print('VIOLATION property=%s replay=%s' % (harness.pid, path))
        return 1
    print('replay: violation not reproduced on this tree')
    return 0
