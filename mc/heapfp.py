"""Structural fingerprint of the implementation heap reachable from named roots.

Object identities are replaced by first-visit labels, so two heaps get the same
fingerprint iff they are isomorphic as labelled graphs (for the object kinds the
walker knows).  Nothing is abstracted away: every slot of every Parameter, every
entry of every `_param__private` namespace, watcher tuples, partials, bound
methods and closure cells are part of the walk.  An object of an unknown kind
raises Unknown -> the caller does not merge that state (over-fine, never unsound).
"""
import datetime
import decimal
import fractions
import functools
import hashlib
import os
import random as _random
import types
import weakref


class Unknown(Exception):
    pass


SCALARS = (int, float, complex, str, bytes, bool, type(None), decimal.Decimal, fractions.Fraction,
           datetime.date, datetime.time, datetime.timedelta)


def fingerprint(roots, extra=None, skip_attrs=()):
    """roots: list of (name, object).  Returns hex digest."""
    import param
    from param.parameterized import Parameter, Parameterized, Parameters, Watcher, ParameterizedMetaclass
    labels = {}
    out = []
    keep = []          # keep temporaries alive so ids are not reused

    def lab(o):
        i = id(o)
        if i in labels:
            return labels[i], True
        labels[i] = len(labels)
        keep.append(o)
        return labels[i], False

    def w(o, depth=0):
        if depth > 60:
            raise Unknown('depth')
        if isinstance(o, float):
            out.append('f:%r' % o)
            return
        if isinstance(o, SCALARS):
            out.append('%s:%r' % (type(o).__name__, o))
            return
        if o is param.Undefined:
            out.append('Undefined')
            return
        n, seen = lab(o)
        if seen:
            out.append('@%d' % n)
            return
        t = type(o)
        if isinstance(o, tuple) and hasattr(o, '_fields'):
            out.append('%s%d(' % (t.__name__, n))
            for f in o._fields:
                out.append(f + '=')
                w(getattr(o, f), depth + 1)
            out.append(')')
        elif t in (list, tuple) or (isinstance(o, (list, tuple)) and not hasattr(o, '_fields')):
            out.append('%s%d[' % (t.__name__, n))
            for x in o:
                w(x, depth + 1)
                out.append(',')
            if hasattr(o, '_parameter'):
                out.append('P=')
                w(o._parameter, depth + 1)
            out.append(']')
        elif isinstance(o, dict):
            out.append('%s%d{' % (t.__name__, n))
            for k, v in o.items():      # insertion order is part of the state
                w(k, depth + 1)
                out.append(':')
                w(v, depth + 1)
                out.append(',')
            out.append('}')
        elif isinstance(o, (set, frozenset)):
            out.append('%s%d{' % (t.__name__, n))
            try:
                items = sorted(o, key=lambda x: (type(x).__name__, x))
            except TypeError:
                raise Unknown('unsortable set')
            for x in items:
                w(x, depth + 1)
                out.append(',')
            out.append('}')
        elif isinstance(o, Parameter):
            out.append('%s%d<' % (t.__name__, n))
            slots = []
            for c in t.__mro__:
                slots.extend(getattr(c, '__slots__', ()))
            for s in slots:
                if s in ('__weakref__',):
                    continue
                try:
                    v = object.__getattribute__(o, s)
                except AttributeError:
                    out.append(s + '=<unset>,')
                    continue
                out.append(s + '=')
                w(v, depth + 1)
                out.append(',')
            out.append('>')
        elif isinstance(o, ParameterizedMetaclass) and (o.__module__ or '').split('.')[0] in ('param', 'numbergen'):
            # library classes (rx Wrapper/Trigger, Time, number generators) are not part of a world: their class-level state
            # (lazily filled caches) is shared by all executions of a worker and must not make fingerprints order-dependent
            out.append('libcls:%s.%s' % (o.__module__, o.__name__))
        elif isinstance(o, ParameterizedMetaclass):
            out.append('cls%d:%s(' % (n, o.__name__))
            for b in o.__bases__:
                if isinstance(b, ParameterizedMetaclass) and b is not Parameterized:
                    w(b, depth + 1)
            for k, v in o.__dict__.items():
                if isinstance(v, Parameter):
                    out.append(k + '=')
                    w(v, depth + 1)
                    out.append(',')
                elif k == '_param__private':
                    out.append('priv=')
                    w(v, depth + 1)
            out.append(')')
        elif isinstance(o, Parameterized):
            out.append('inst%d:%s(' % (n, t.__name__))
            w(t, depth + 1)
            for k, v in sorted(o.__dict__.items()):
                if k in skip_attrs:
                    continue
                out.append(k + '=')
                w(v, depth + 1)
                out.append(',')
            out.append(')')
        elif t.__name__ in ('_InstancePrivate', '_ClassPrivate'):
            out.append('%s%d(' % (t.__name__, n))
            for s in t.__slots__:
                try:
                    v = getattr(o, s)
                except AttributeError:
                    out.append(s + '=<unset>,')
                    continue
                out.append(s + '=')
                w(v, depth + 1)
                out.append(',')
            out.append(')')
        elif isinstance(o, Parameters):
            out.append('ns%d(' % n)
            w(o.__dict__.get('cls'), depth + 1)
            w(o.__dict__.get('self'), depth + 1)
            out.append(')')
        elif isinstance(o, functools.partial):
            out.append('partial%d(' % n)
            w(o.func, depth + 1)
            w(o.args, depth + 1)
            w(o.keywords, depth + 1)
            out.append(')')
        elif isinstance(o, types.MethodType):
            out.append('meth%d(' % n)
            w(o.__self__, depth + 1)
            out.append(o.__func__.__qualname__)
            out.append(')')
        elif isinstance(o, types.FunctionType):
            out.append('fn%d:%s:%d(' % (n, o.__qualname__, o.__code__.co_firstlineno))
            for c in (o.__closure__ or ()):
                try:
                    w(c.cell_contents, depth + 1)
                except ValueError:
                    out.append('<empty>')
                out.append(',')
            if o.__dict__:
                w({k: v for k, v in o.__dict__.items() if k != '__wrapped__'}, depth + 1)
            out.append(')')
        elif isinstance(o, types.ModuleType):
            out.append('module:%s' % o.__name__)
        elif isinstance(o, (types.BuiltinFunctionType, types.BuiltinMethodType, type)):
            out.append('named:%s.%s' % (getattr(o, '__module__', ''), getattr(o, '__qualname__', repr(o))))
        elif isinstance(o, weakref.ref):
            out.append('wref(')
            w(o(), depth + 1)
            out.append(')')
        elif t.__name__ == 'Struct' and hasattr(o, 'format'):
            out.append('Struct(%s)' % (o.format,))
        elif t.__name__ == 'HASH' and hasattr(o, 'hexdigest'):
            out.append('HASH%d(%s)' % (n, o.hexdigest()))
        elif isinstance(o, _random.Random):
            out.append('Random%d(%s)' % (n, hashlib.sha1(repr(o.getstate()).encode()).hexdigest()[:16]))
        elif hasattr(o, '__verif_fp__'):
            out.append('%s%d(' % (t.__name__, n))
            w(o.__verif_fp__(), depth + 1)
            out.append(')')
        elif hasattr(o, '__dict__') and not isinstance(o, (types.ModuleType, types.GeneratorType, types.CoroutineType)) \
                and not getattr(t, '__slots__', None):
            # plain Python object: its whole state is its __dict__ (e.g. rx expressions, user objects)
            out.append('obj%d:%s(' % (n, t.__name__))
            for k, v in sorted(o.__dict__.items()):
                out.append(k + '=')
                w(v, depth + 1)
                out.append(',')
            out.append(')')
        else:
            raise Unknown(t.__name__)

    for name, r in roots:
        out.append('ROOT %s=' % name)
        w(r)
        out.append(';')
    if extra is not None:
        out.append('EXTRA=' + repr(extra))
    digest = hashlib.sha1(''.join(out).encode()).hexdigest()
    rawdir = os.environ.get('VERIF_FPRAW')
    if rawdir:
        try:
            with open(os.path.join(rawdir, digest + '.txt'), 'x') as f:
                f.write(''.join(out))
        except FileExistsError:
            pass
    return digest


def try_fingerprint(roots, extra=None, **kw):
    try:
        return fingerprint(roots, extra, **kw)
    except Unknown:
        return None
