"""Bounded exhaustive exploration engine for holoviz/param (see /verif/DESIGN.md)."""
