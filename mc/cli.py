import argparse
import importlib
import os
import sys


def main():
    ap = argparse.ArgumentParser()
    ap.add_argument('prop')
    ap.add_argument('--tier', default=os.environ.get('VERIF_TIER', 'quick'), choices=['quick', 'thorough'])
    ap.add_argument('--replay')
    a = ap.parse_args()
    from . import pin
    pin.pin()
    from . import engine
    mod = importlib.import_module('harness.' + a.prop.lower())
    h = mod.HARNESS
    seed = int(os.environ.get('VERIF_SEED', '0') or 0)
    if a.replay:
        sys.exit(engine.replay(h, a.replay))
    sys.exit(engine.run(h, a.tier, seed))


if __name__ == '__main__':
    main()
