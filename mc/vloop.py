"""A hand-stepped asyncio event loop: the harness owns every scheduling decision.

VLoop is a BaseEventLoop without selector; it is installed as *the running loop* (so asyncio.get_running_loop(), ensure_future,
current_task and param's async_executor all use it unchanged) and never runs by itself: the harness pops ready callbacks one
at a time (`step`) or until quiescence (`drain`).  Time is virtual."""
import asyncio
import threading
from asyncio import events


class VLoop(asyncio.BaseEventLoop):
    def __init__(self):
        super().__init__()
        self._vtime = 0.0
        self.unhandled = []
        self.set_exception_handler(lambda loop, ctx: self.unhandled.append(ctx))

    def time(self):
        return self._vtime

    def _process_events(self, event_list):
        pass

    def _write_to_self(self):
        pass

    # ---- harness API
    def install(self):
        self._thread_id = threading.get_ident()      # is_running() -> True
        self._old = events._get_running_loop()
        events._set_running_loop(self)
        return self

    def uninstall(self):
        events._set_running_loop(self._old)
        self._thread_id = None
        # cancel what is left so that nothing leaks into the next execution
        for t in list(asyncio.all_tasks(self)):
            t.cancel()
        try:
            events._set_running_loop(self)
            self._thread_id = threading.get_ident()
            self.drain(1000)
        finally:
            self._thread_id = None
            events._set_running_loop(self._old)
        self.close()

    def ready(self):
        return sum(1 for h in self._ready if not h._cancelled)

    def step(self):
        """run exactly one ready (non-cancelled) callback; False if none"""
        while self._ready:
            h = self._ready.popleft()
            if h._cancelled:
                continue
            h._run()
            return True
        return False

    def drain(self, limit=10000):
        n = 0
        while self.step():
            n += 1
            if n > limit:
                raise RuntimeError('virtual loop did not go quiescent within %d callbacks' % limit)
        return n
