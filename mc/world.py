"""Helpers shared by harnesses: reset of the module globals param keeps, small utilities."""


def reset_globals():
    import param
    import param.parameterized as pz
    pz.object_count = 0
    pz.warnings_as_exceptions = False
    param.Dynamic.time_dependent = False
    param.Dynamic.time_fn(0) if False else None


def fresh_copy(o):
    """an object equal to o but (where CPython allows) not identical with it"""
    if isinstance(o, tuple):
        return tuple(fresh_copy(x) for x in list(o)) if o else o
    if isinstance(o, list):
        return [fresh_copy(x) for x in o]
    if isinstance(o, dict):
        return {k: fresh_copy(v) for k, v in o.items()}
    if isinstance(o, str) and len(o) > 1:
        return (o + ' ')[:-1]
    if isinstance(o, float):
        return float(repr(o))
    return o
