"""Pin the tree under test: $VERIF_REPO (default /repo) first on sys.path.

/venv's site-packages holds a stale *copy* of param; a check that imported it
would never see edits of the working tree.  Every entry point calls pin()
before importing param and aborts (exit 2, no verdict) if the import resolves
anywhere else.
"""
import os
import sys

REPO = os.path.realpath(os.environ.get('VERIF_REPO', '/repo'))
VERIF = os.path.dirname(os.path.dirname(os.path.realpath(__file__)))
GUARD = 'PARAM_VERIF'


def pin():
    os.environ.setdefault(GUARD, '1')
    if REPO in sys.path:
        sys.path.remove(REPO)
    sys.path.insert(0, REPO)
    vendor = os.path.join(VERIF, '.vendor')
    if os.path.isdir(vendor) and vendor not in sys.path:
        sys.path.append(vendor)
    for m in [m for m in sys.modules if m == 'param' or m.startswith('param.') or m == 'numbergen']:
        f = getattr(sys.modules[m], '__file__', '') or ''
        if not os.path.realpath(f).startswith(REPO + os.sep):
            del sys.modules[m]
    import param
    import numbergen
    for mod in (param, numbergen):
        f = os.path.realpath(mod.__file__)
        if not f.startswith(REPO + os.sep):
            sys.stderr.write(f"HARNESS-ERROR: {mod.__name__} imported from {f}, not from {REPO}\n")
            sys.exit(2)
    import logging
    # param logs warnings through its own logger; keep the check output clean
    logging.getLogger('param').setLevel(logging.CRITICAL)
    import warnings
    warnings.simplefilter('ignore')
    return param
