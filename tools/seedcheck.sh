#!/bin/sh
# merge-soundness audit: the number of states/transitions/evaluations of every check must not depend on VERIF_SEED
# (the seed only permutes dispatch order and thereby which history represents a merged state)
cd "$(dirname "$0")/.."
for c in "$@"; do
  a=$(VERIF_SEED=11 VERIF_EVIDENCE_DIR=/var/tmp/ev_sc ./check $c 2>/dev/null | tail -1 | sed 's/seed=[0-9]* //; s/ wall=.*//')
  b=$(VERIF_SEED=12 VERIF_EVIDENCE_DIR=/var/tmp/ev_sc ./check $c 2>/dev/null | tail -1 | sed 's/seed=[0-9]* //; s/ wall=.*//')
  if [ "$a" = "$b" ]; then echo "OK   $a"; else echo "DIFF $a"; echo "     $b"; fi
done
rm -rf /var/tmp/ev_sc
