#!/bin/sh
# usage: tools/mutant.sh <patch.diff> [--suite] Cxx [Cyy ...]
# Applies the patch to a scratch copy of /repo (outside /repo and /verif), optionally runs the pinned suite there,
# runs the named quick checks with VERIF_REPO=<scratch>, prints one line per check, removes the scratch copy.
PATCH="$(realpath "$1")"; shift
S="/var/tmp/mut_$$"
mkdir -p "$S" && rsync -a --exclude .git --exclude doc --exclude '__pycache__' /repo/ "$S/"
( cd "$S" && patch -p1 -s < "$PATCH" ) || { echo "PATCH-FAILED $PATCH"; rm -rf "$S"; exit 3; }
if [ "$1" = "--suite" ]; then shift; echo "suite: $(/verif/tools/suite.sh "$S" | tail -1)"; fi
for c in "$@"; do
  out=$(cd /verif && VERIF_REPO="$S" VERIF_EVIDENCE_DIR="$S/evidence" ./check "$c" --tier quick 2>/dev/null)
  rc=$?
  echo "$c rc=$rc $(echo "$out" | grep -c '^VIOLATION') violation lines; $(echo "$out" | tail -1)"
done
rm -rf "$S"
