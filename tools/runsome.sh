#!/bin/sh
# run the given tier for the listed checks: tools/runsome.sh <tier> C08 C09 ...
cd "$(dirname "$0")/.."
TIER="$1"; shift
for c in "$@"; do
  out=$(./check $c --tier $TIER 2>&1); rc=$?
  echo "rc=$rc $(echo "$out" | grep -c '^VIOLATION') viol; $(echo "$out" | grep -c '^KNOWN-FINDING') known; $(echo "$out" | tail -1)"
done
