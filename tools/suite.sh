#!/bin/sh
# run the pinned test suite on a tree (default /repo); prints the summary line; exit status of pytest
R="${1:-/repo}"
cd "$R" && /venv/bin/python -m pytest -q -p no:cacheprovider -n 8 --color=no 2>&1 | tail -3
