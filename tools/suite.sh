#!/bin/sh
# run the pinned test suite on a tree (default /repo); prints the summary line; exit status of pytest
R="${1:-/repo}"
# (the suite leaks temporary directories: give it its own TMPDIR and remove it)
T=$(mktemp -d /var/tmp/suite.XXXXXX)
cd "$R" && TMPDIR=$T /venv/bin/python -m pytest -q -p no:cacheprovider -n 8 --color=no 2>&1 | tail -3
rc=$?
rm -rf "$T"
exit $rc
