#!/usr/bin/env python3
"""Regenerates /verif/MANIFEST.json from the table below (one row per property)."""
import json
import os

HERE = os.path.dirname(os.path.dirname(os.path.abspath(__file__)))
ALL = ['C%02d' % i for i in range(1, 21)]

BASE_NOTE = ("Trusted base: CPython 3.12, the reference model in the harness, the engine in /verif/mc. "
             "Bounded: only histories/inputs within the stated alphabet and depth are covered.")

# pid -> (category, design_ref, text, technique, note)
CHECKS = {
    'C01': ('exploration', 'DESIGN.md §3 C01',
            'Every built-in non-numpy, non-filesystem Parameter type x every constraint configuration (bounds None/one-/two-sided x four '
            'inclusivities, allow_None, regexes, lengths, item types, object lists/dicts, check_on_set, class_/is_instance) x ~110 candidate '
            'values plus each configuration\'s boundary and just-outside (nextafter) values x 12 assignment routes (Parameter default, constructor, '
            'instance attribute, class attribute, instance/class update, deserialization, Parameter reconfigured on class / instance, constraints '
            'inherited by a redeclaring subclass, constant parameter through the constructor and inside edit_constant) is executed; acceptance must equal an independent '
            'three-valued predicate, rejections must be ValueError/TypeError and leave the value untouched, accepted values read back by identity.',
            'bounded-exhaustive enumeration (type x configuration x value x route) against an independent acceptance predicate',
            BASE_NOTE + ' Cases the documentation leaves open are EITHER (counted in the evidence, not judged).'),
    'C02': ('model_checking', 'DESIGN.md §3 C02',
            'BFS over histories of successful operations (plain sets, links to a Parameter / bind / rx / rx root, multi-key update, source and root '
            'updates, class-level sets on base and subclass, making a parameter constant, open batch / discard contexts); in every reached state each of '
            '39 rejected attempts (invalid plain values incl. NaN, callables that cannot be value generators, references whose current value is invalid, constant / read-only / name violations, '
            'invalid Event values; instance, class, subclass and single-key update routes) is made on a fresh replay: it must raise ValueError/TypeError, '
            'run no watcher, leave values, stored values, links, every watcher table and the Parameter object governing each name on every class identical, and a fixed probe must then observe exactly what it '
            'observes in a twin world that never saw the attempt.',
            'explicit-state BFS over operation histories of the real code with a differential (twin-world) oracle',
            BASE_NOTE),
    'C03': ('model_checking', 'DESIGN.md §3 C03, Appendix A',
            'Every program up to the depth bound over nine complete slices of watcher configurations (ordering/lifecycle incl. refused registrations, one-shot value and slot watchers that unwatch themselves inside the callback, an instance following a changing class default with and without its own Parameter copy, base class + subclass with its own Parameter copies, changes-only '
            'filtering over a 22-value equality domain incl. 1/True/1.0/NaN/equal containers/dates/sets, queued and non-queued cascades, '
            'slot watchers, class-level watchers) is executed on the real dispatcher; the trace recorded by the callbacks is checked for '
            'inclusion in a reference dispatcher written from the statement (exactly-once, order, old/new identity, type, value visible at entry, depth-first cascades).',
            'explicit-state BFS over operation histories of the real code; trace inclusion in a reference dispatcher',
            BASE_NOTE),
    'C04': ('model_checking', 'DESIGN.md §3 C04, Appendix A',
            'Every token string up to the depth bound (assignments, update, trigger, Event sets, nested batch / discard / update-context frames) '
            'over six watcher configurations is executed on the real dispatcher; deferral, coalescing to one call per watcher with the final value, '
            'precedence order at the flush, exact discard, trigger semantics and restore-on-exit are checked against the reference dispatcher.',
            'explicit-state BFS over token strings of the real code; trace inclusion in a reference dispatcher',
            BASE_NOTE),
    'C05': ('fault_enumeration', 'DESIGN.md §3 C05',
            'For every token program up to the length bound, every subset (<= F) of watcher invocations is made to raise, and rejected update keys '
            'and raising context bodies occur at every position; after each faulty run the survivor must (i) never run a watcher while a surviving '
            'batch is open, (ii) have announced what a rejected update applied, (iii) hold nothing queued once no batch is open, (iv) answer a fixed probe '
            '(starting with an unrelated assignment) exactly like a freshly built twin, (v) leave the class outside any batch; six watcher configurations incl. queued cascades and a watcher that fires the Event.',
            'exhaustive fault enumeration (positions x programs) with a differential probe against a fresh twin',
            BASE_NOTE),
    'C06': ('model_checking', 'DESIGN.md §3 C06',
            'Every hierarchy (single class, chains of 2 and 3, diamond, helper-method overrides, function form) x every declaration of the '
            'dependent method at every level (absent / plain override / watch / on_init / queued over 7 dependency sets incl. slot specs and helper '
            'methods; also declared on a plain mixin base, raising param.Skip, next to a second dependent method) is built as a real class; every program up to the length bound (sets, same-value sets, update, batches, slot assignment, '
            'update inside a batch) is run on a fresh instance and the invocation count after each step compared with an MRO-based resolver; '
            'method_dependencies() must agree with the resolver.',
            'exhaustive enumeration of class hierarchies x operation programs on the real code vs. an independent MRO-based resolver',
            BASE_NOTE),
    'C07': ('model_checking', 'DESIGN.md §3 C07',
            'For every single dependency path (a.x, a.y, a.b.x, a.b.y, a.param, a.b.param, x, c.y, a.b.c.x), the sub-object itself next to a path through it, every path combined with an own parameter, every pair of the six sub-object paths, one triple and two methods sharing sub-objects, BFS over '
            'attach / replace / detach at both levels and leaf assignments on attached and detached objects (incl. falsy container-like objects and objects with a value-based __eq__); '
            'after every step the invocation count must match an object-graph model that uses only the values reached through the declared paths, and no '
            'object off the current paths may carry a watcher for the parent.',
            'explicit-state BFS over operation histories of real object graphs vs. an object-graph reference model',
            BASE_NOTE),
    'C08': ('model_checking', 'DESIGN.md §3 C08',
            'BFS over link / relink / override / source and rx-root updates / update contexts (keyword and positional) / multi-key update for '
            'reference kinds Parameter, bind of 1 and 2 parameters, depends method, rx over a Parameter, rx root, list, dict and set containing a Parameter '
            '(nested_refs), param.trigger on linked parameters, batched updates of two parameters of one source, a target without per-instance Parameter, with links made in the constructor or later, plus a bounded Number target whose source may take invalid values; after '
            'every step each target parameter must equal the model\'s own evaluation of its live link (or its last plain value) and each source '
            'parameter must carry exactly one sync watcher of the target iff a live link depends on it.',
            'explicit-state BFS over operation histories of the real code vs. a reference model of live links',
            BASE_NOTE),
    'C09': ('model_checking', 'DESIGN.md §3 C09',
            'Part A: for every binary operator (arithmetic, shifts, bitwise, @, divmod, comparisons) every ordered pair of 16 operands in the forms '
            'expr op const, const op expr (reflected dispatch) and expr op expr, and every unary form, .rx.value must equal the plain-Python result in '
            'value and type or raise the same exception class.  Part B: ~190 expression trees of one and two operation nodes over two rx roots, two '
            'Parameters, a bind function and a constant (shared sub-expression objects, an input used as pipeline root and as argument, nested where / '
            'pipe / and_ / not_, indexing with a reactive index, map, len, in_, is_, attribute and method access), each with and without an .rx.watch '
            'callback: every history of <= 3 input updates (incl. error-inducing values) and reads is replayed on a freshly built expression and compared '
            'with a direct evaluator over the same tree, followed by a closing read and a recovery check after errors.',
            'operator table (bounded-exhaustive) + exhaustive enumeration of expression trees x update/read histories on the real code vs. a plain-Python evaluator',
            BASE_NOTE + ' tests/testreactive.py is skipped in this sandbox (numpy absent), so the pinned suite does not exercise reactive.py.'),
    'C10': ('model_checking', 'DESIGN.md §3 C10',
            'On a hand-stepped virtual asyncio loop (the harness pops every ready callback itself): for every program of <= 3 (thorough 4) assignments '
            'to an allow_refs parameter drawn from {coroutine function (distinct or one shared function object), async generator with two gated yields, '
            'coroutine bound to a dependency, plain value, synchronous reference, generator whose first value a watcher answers with a plain assignment, dependency update} (plus two constructor situations: an async function given to a parameter without references, an async reference on a constant) every schedule of {perform the next assignment, complete any pending '
            'non-cancelled future, run one ready callback} with <= 2 (thorough 3) non-draining deviations is executed from scratch; and the same for a '
            'root piped through a coroutine / async generator (with a second input passed as extra argument) with interleaved root / argument updates and reads, watched or not.  At quiescence the parameter / '
            'expression holds the result of the latest assignment, no superseded result is ever applied after a newer assignment, no task stays '
            'registered and the syncing marker is clear.',
            'stateless schedule enumeration (deviation-bounded) of the real code on a controlled virtual event loop',
            BASE_NOTE + ' Trusted: CPython asyncio Task/Future stepping through BaseEventLoop internals (_ready, _set_running_loop).'),
    'C11': ('exploration', 'DESIGN.md §3 C11',
            'Chains of 2 (all subsets of <= 2, for Number>Number <= 3, explicitly specified attributes per level), chains of 3 (middle class declaring, '
            'not declaring, or declaring a more general type) and diamonds (with and without redeclaration at the join), over the types Parameter / '
            'Number / Integer / String and a menu of 16 attribute values (defaults that agree or conflict with inherited bounds, None defaults, bounds, '
            'inclusivity, step, regex, doc, constant, readonly, allow_None, instantiate, precedence, per_instance), by class creation and by add_parameter: '
            'every slot of the resulting Parameter is compared with an independent per-slot MRO resolver (plus 16 re-declarations with another Parameter type, where the class must be created exactly when the new type accepts the inherited default), and creation must fail exactly when the C01 '
            'predicate rejects the merged default under the merged constraints (None re-checked only after a type change).',
            'bounded-exhaustive enumeration of declared hierarchies on real class creation vs. an independent resolver',
            BASE_NOTE),
    'C12': ('model_checking', 'DESIGN.md §3 C12',
            'BFS over instance creation (plain, with keyword, with a reference that yields no value, with a new value for an open Selector, of a class three levels below the one assigned to), instance / class / subclass assignments (incl. the very object that is the class default), param.trigger, in-place '
            'mutation of values through instances and classes, Parameter attribute assignment and in-place mutation of a Selector\'s objects on instances and '
            'classes, for a class with instantiate=True, shared, bounded, constant, per_instance=False and allow_refs parameters and a subclass that '
            'redeclares one with a narrower type; after every step the whole observation matrix (every class and instance x every parameter: value, '
            'contents, alias class) must equal an ownership model, and instance-level attribute changes must leave every other holder\'s attributes untouched.',
            'explicit-state BFS over operation histories of the real code vs. an ownership / aliasing model',
            BASE_NOTE),
    'C13': ('model_checking', 'DESIGN.md §3 C13',
            'BFS over class-level assignments at every level of A->B->C->E / A->B2 / D(B, B2), Parameter objects assigned as class attributes, add_parameter of a new and of an existing name at every level, '
            'cache-filling namespace reads, additions that are refused (default violating inherited bounds), instance creation, instance assignment and instance namespace access; in every reached state, for every '
            'class and instance: the names in .param equal the Parameters Python attribute lookup finds, .param[n] is that very object, its default equals '
            'the class attribute, values()/repr/serialization agree with getattr (also while a class-level watcher of the assignment is running, where the value it is told must be what getattr gives); then a probe (watch + set on each instance, a fresh instance of every class, '
            'use of an added parameter).',
            'explicit-state BFS with an invariant over all classes and instances (no reference model other than Python attribute lookup)',
            BASE_NOTE),
    'C14': ('model_checking', 'DESIGN.md §3 C14',
            'Eight kinds of slice (ordinary Parameters, per_instance=False, no_instance_params, a constant and a read-only parameter with allow_refs and two reference sources '
            'incl. a reference that skips and watchers running during a reference sync, assignments attempted '
            'inside watcher / depends callbacks started by a set or by param.trigger, a class overriding the default of name, watchers of the constant attribute that raise, '
            'instances created while a block is open; plus param.Time changing its own constant time_type): BFS over instance sets of a constant (new object / the identical object), of a read-only parameter and of name, single-key update, class-level '
            'sets on the declaring class and on a subclass, nested and failing edit_constant blocks on either of two instances or on the class, leaving several blocks at once, and creation of per-instance '
            'Parameter copies; after every step the identity held by every constant (incl. one whose default is None), read-only and name parameter and the '
            'class defaults are compared with the model, and whenever no edit block is open every constant flag on class and instance Parameter objects must be True.',
            'explicit-state BFS over operation histories of the real code vs. an identity model',
            BASE_NOTE),
    'C15': ('exploration', 'DESIGN.md §3 C15',
            'For 18 serializable parameter types a boundary-rich value list (extreme ints/floats, -0.0, escape-laden and non-ASCII strings, empty '
            'containers, microseconds, years 1/999/9999, date-only and datetime ranges, None) x class/instance level x {all, subset=, '
            'serialize_value/deserialize_value, selective restore, empty subset, a one-shot iterable as subset, the same text restored twice with the first result mutated in place} is pushed through the real serializer; the text must be standard JSON and the rebuilt object must hold '
            'values equal and of identical Python type; quick adds every unordered, thorough every ordered pair of types in one class.',
            'bounded-exhaustive enumeration of round trips through the real serializer',
            BASE_NOTE),
    'C16': ('exploration', 'DESIGN.md §3 C16',
            'For every constraint configuration of the schema-capable types (bounds x inclusivity, lengths, item types, object lists incl. empty and '
            'None-containing, class_, allow_None) the generated schema is meta-validated (Draft 7) and every listed valid state, class and instance '
            'level (incl. reconfigured per-instance Parameters, open dict-declared Selectors, Selector defaults computed on request, selectors left at their None default, infinite bounds), must validate against it; for Number/Integer every out-of-bounds probe (incl. nextafter and exactly-on-exclusive-bound) must be rejected.',
            'bounded-exhaustive enumeration of configurations x states, decided by the jsonschema Draft-7 validator',
            BASE_NOTE + ' Trusted: jsonschema 4.26 (vendored offline by setup.sh).'),
    'C19': ('model_checking', 'DESIGN.md §3 C19',
            'Three slices on real time-dependent generators (two UniformRandom with the same name and seed, one with another seed, a SquareWave, a composite '
            'TimeSampledFn, a generator that cannot produce a value at time 1; two instances; the global param.Time; third slice: param.random_seed set after construction): (micro) BFS over jumps, +1/-1, reads through either instance, inspect_value, nested time contexts (left normally, through an exception, through StopIteration) and '
            '_state_push/_state_pop; (macro) after a warm-up that fills the (name, seed, time) table for every time of the alphabet, BFS to depth 8 '
            'over jump-and-read, push/pop (nested) and nested time contexts.  Every read must equal the value first produced for its (name, seed, time), '
            'on any instance and after any visiting order; inspection shows the last produced value and does not advance it; leaving a context restores '
            'the time; pop restores what inspection showed at the push.',
            'explicit-state BFS over operation histories of the real code vs. a (generator, seed, time) table',
            BASE_NOTE + ' Times range over -1..3.'),
    'C20': ('exploration', 'DESIGN.md §3 C20',
            'For four class shapes (default constructor, positional+keyword custom constructor, keyword whose signature default differs from the '
            'Parameter default, nested Parameterized values) every listed value of every parameter (negative/huge ints, +-inf, escapes, bytes, None, '
            'empty and one-element tuples, nesting, explicit names incl. class-like ones), all-parameters-at-once states, one nested object reachable twice, nested objects inside lists/tuples/dicts, dict and set values with non-finite floats, and the same states after an interrupted print are printed with script_repr() and .param.pprint(); '
            'the text is executed in a namespace holding only its own imports and the rebuilt object compared recursively.',
            'bounded-exhaustive enumeration of states; printed text executed and compared',
            BASE_NOTE),
    'C17': ('model_checking', 'DESIGN.md §3 C17',
            'Every pre-copy history of length <= 2 (sets, update, in-place mutation, per-instance Parameter edits incl. Selector objects of dict and '
            'OrderedDict kind, sub-object attachment, user watchers bound to the instance with precedences, ordinary attributes incl. one stored in the '
            'class\'s own __slots__, also holding None; a subclass with a depends(\'sub.x\', watch=True) method over every pre-history that attaches the sub-object; copies taken while a batch / discard block is open) x copy mechanism (deepcopy, pickle protocols 2 and 5; thorough 0-5) x every post-copy history of length <= 2 applied '
            'to the original or the copy is executed: the copy must succeed, equal the original (values, per-instance Parameter attributes, ordinary '
            'attributes), share no mutable object (identity walk), every later operation must leave the other side\'s snapshot and the class-level state '
            'untouched, dependent methods fire exactly once on the side operated on and user watchers run bound to that side in precedence order.',
            'exhaustive enumeration of (pre-history, mechanism, post-history) cases on the real code with differential oracles',
            BASE_NOTE),
    'C18': ('model_checking', 'DESIGN.md §3 C18',
            'Every mutation history up to the depth bound over list- and dict-declared Selector/ListSelector '
            '(class and instance level; a reused proxy; None and NaN among the objects; an open dict-declared Selector with un-named entries; one-shot iterables, pop with a default, assignment of the own list view) is executed on the real ListProxy and compared after every step with a '
            'plain list/dict: list view, items/keys/values, names, get_range(), pop return value, one objects-watcher '
            'notification, and acceptance of every pool value.',
            'explicit-state BFS over operation histories of the real code vs. reference model (list/dict)',
            BASE_NOTE),
}


def main():
    checks = []
    for pid in ALL:
        if pid not in CHECKS:
            continue
        cat, ref, text, tech, note = CHECKS[pid]
        checks.append({
            'property_id': pid,
            'quick_cmd': './check %s --tier quick' % pid,
            'thorough_cmd': './check %s --tier thorough' % pid,
            'evidence_file': 'evidence/%s.json' % pid,
            'replay_cmd_template': './check %s --replay {path}' % pid,
            'engine': 'mc',
            'level_claimed': {'category': cat, 'text': text, 'design_ref': ref},
            'level_note': note,
            'technique': tech,
        })
    na_path = os.path.join(HERE, 'tools', 'not_applicable.json')
    na_reasons = json.load(open(na_path)) if os.path.exists(na_path) else {}
    na = [{'property_id': p, 'reason': na_reasons.get(p, 'check not built yet in this round (planned: bounded exhaustive exploration, see DESIGN.md §3)')}
          for p in ALL if p not in CHECKS]
    m = {
        'version': 1,
        'setup_cmd': './setup.sh',
        'hooks': {
            'guard': 'PARAM_VERIF',
            'enable': 'no source hooks are needed: harnesses read param internals from outside; the checks import the working tree via VERIF_REPO (default /repo) first on sys.path',
            'baseline_off_cmd': 'cd /repo && /venv/bin/python -m pytest -ra -q -p no:cacheprovider --timeout=900 --continue-on-collection-errors',
            'source_commits': [],
            'add_only': True,
        },
        'engines': [{
            'name': 'mc', 'path': 'mc/',
            'serves_properties': sorted(CHECKS),
            'kind_free_text': 'hand-written explicit-state / bounded-exhaustive explorer that executes the real param code '
                              '(replay-from-scratch BFS over operation histories, schedule and fault enumeration), 16 worker processes',
        }],
        'checks': checks,
        'not_applicable': na,
        'notes': 'All checks run the real implementation from $VERIF_REPO (default /repo); see DESIGN.md. known_findings.json lists recorded findings and fixed defects.',
    }
    with open(os.path.join(HERE, 'MANIFEST.json'), 'w') as f:
        json.dump(m, f, indent=1)
    try:
        import sys
        sys.path.append(os.path.join(HERE, '.vendor'))
        import jsonschema
        jsonschema.validate(m, json.load(open('/root/.vp/MANIFEST.schema.json')))
        for c in checks:
            p = os.path.join(HERE, c['evidence_file'])
            if os.path.exists(p):
                jsonschema.validate(json.load(open(p)), json.load(open('/root/.vp/EVIDENCE.schema.json')))
        print('MANIFEST.json valid; %d checks, %d not_applicable' % (len(checks), len(na)))
    except ImportError:
        print('written (jsonschema not available for validation)')


if __name__ == '__main__':
    main()
