#!/usr/bin/env python3
"""Evaluate a seeded defect: tools/seed_eval.py <src_dir with patch.diff, demo.py[, notes.md]> <seed-id> <Cxx> [more checks...]

In a scratch copy of /repo (outside /repo and /verif): demo on the clean tree must pass, patch must apply, pinned suite must
stay green, demo must fail, then the named quick checks are run with VERIF_REPO=<scratch>.  If all preconditions hold the seed is
stored as /verif/seeded/<seed-id>/ {patch.diff, demo.py, notes.md, meta.json}.  The scratch copy is removed.
"""
import json
import os
import shutil
import subprocess
import sys
import time

VERIF = os.path.dirname(os.path.dirname(os.path.abspath(__file__)))


def sh(cmd, cwd=None, env=None, timeout=3600):
    e = dict(os.environ)
    e.update(env or {})
    p = subprocess.run(cmd, shell=True, cwd=cwd, env=e, capture_output=True, text=True, timeout=timeout)
    return p.returncode, p.stdout + p.stderr


def main():
    src, sid, checks = os.path.abspath(sys.argv[1]), sys.argv[2], sys.argv[3:]
    keep = '--no-store' not in checks
    checks = [c for c in checks if not c.startswith('--')]
    S = '/var/tmp/seed_%d' % os.getpid()
    sh('mkdir -p %s && rsync -a --exclude .git --exclude doc --exclude __pycache__ /repo/ %s/' % (S, S))
    meta = {'seed': sid, 'breaks_property': checks[0] if checks else None, 'evaluated_at_repo_head': sh('git -C /repo rev-parse --short HEAD')[1].strip()}
    try:
        demo = os.path.join(src, 'demo.py')
        # run a copy placed at <tree>/out/seed/demo.py: some demos locate the tree relative to their own position
        os.makedirs(os.path.join(S, 'out', 'seed'), exist_ok=True)
        shutil.copy(demo, os.path.join(S, 'out', 'seed', 'demo.py'))
        demo_run = os.path.join(S, 'out', 'seed', 'demo.py')
        env = {'PYTHONPATH': S}
        rc0, out0 = sh('/venv/bin/python %s' % demo_run, cwd=S, env=env)
        meta['demo_on_clean_tree_rc'] = rc0
        rc, out = sh('patch -p1 -s < %s' % os.path.join(src, 'patch.diff'), cwd=S)
        meta['patch_applies'] = rc == 0
        if rc != 0:
            print('PATCH DOES NOT APPLY\n' + out)
            return 3
        rc, out = sh('T=$(mktemp -d /var/tmp/suite.XXXXXX); TMPDIR=$T /venv/bin/python -m pytest -q -p no:cacheprovider -n 8 --color=no 2>&1 | tail -1; rm -rf $T', cwd=S)
        meta['suite_with_patch'] = out.strip()
        import re
        suite_ok = not re.search(r'\b\d+ (failed|error)', out) and 'passed' in out
        rc1, out1 = sh('/venv/bin/python %s' % demo_run, cwd=S, env=env)
        meta['demo_with_patch_rc'] = rc1
        meta['demo_with_patch_output'] = out1.strip()[-500:]
        valid = suite_ok and rc0 == 0 and rc1 != 0
        meta['valid_seed'] = valid
        print('seed %s: clean demo rc=%d, patched demo rc=%d, suite: %s -> %s' % (sid, rc0, rc1, out.strip(), 'VALID' if valid else 'INVALID'))
        meta['checks'] = {}
        for c in checks:
            t0 = time.time()
            rc, out = sh('./check %s --tier quick' % c, cwd=VERIF, env={'VERIF_REPO': S, 'VERIF_EVIDENCE_DIR': S + '/evidence'})
            lines = [ln for ln in out.splitlines() if ln.startswith('VIOLATION')]
            clauses = [ln.strip() for ln in out.splitlines() if ln.strip().startswith('clause=')][:3]
            meta['checks'][c] = {'rc': rc, 'violation_lines': len(lines), 'first_clauses': clauses, 'wall_s': round(time.time() - t0, 1)}
            print('  %s rc=%d violations=%d %s' % (c, rc, len(lines), clauses[:1]))
        meta['detected_by'] = [c for c, r in meta['checks'].items() if r['rc'] == 1 and r['violation_lines'] > 0]
        if keep and valid:
            d = os.path.join(VERIF, 'seeded', sid)
            os.makedirs(d, exist_ok=True)
            same_dir = os.path.realpath(src) == os.path.realpath(d)
            if not same_dir:
                shutil.copy(os.path.join(src, 'patch.diff'), d)
                shutil.copy(demo, d)
            if os.path.exists(os.path.join(src, 'notes.md')):
                if not same_dir:
                    shutil.copy(os.path.join(src, 'notes.md'), d)
                meta['needs_to_manifest'] = open(os.path.join(src, 'notes.md')).read()[:1500]
            meta['what_was_run'] = ['demo.py on clean copy and on patched copy', 'pinned suite on patched copy (pytest -n 8)',
                                    'quick checks with VERIF_REPO=<patched scratch copy>: ' + ' '.join(checks)]
            old_meta = os.path.join(d, 'meta.json')
            if os.path.exists(old_meta):
                try:
                    om = json.load(open(old_meta))
                    if 'note' in om:
                        meta['note'] = om['note']
                except Exception:
                    pass
            json.dump(meta, open(old_meta, 'w'), indent=1)
        return 0
    finally:
        shutil.rmtree(S, ignore_errors=True)


if __name__ == '__main__':
    sys.exit(main())
