#!/usr/bin/env python3
"""Prints, per property, the coverage numbers of the latest evidence files (used to refresh the table in DESIGN.md §3)."""
import glob
import json
import os

HERE = os.path.dirname(os.path.dirname(os.path.abspath(__file__)))
for f in sorted(glob.glob(os.path.join(HERE, 'evidence', 'C*.json'))):
    d = json.load(open(f))
    c = d['coverage']
    print('%s tier=%s evaluations=%s states=%s transitions=%s outcomes=%s exhaustive=%s' % (
        d['property_id'], d.get('tier'), c.get('evaluations'), c.get('states', c.get('distinct_nontrivial')), c.get('transitions'),
        c.get('distinct_outcomes'), c.get('exhaustive')))
