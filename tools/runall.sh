#!/bin/sh
# run every registered quick (or $1=thorough) check; one summary line each
cd "$(dirname "$0")/.."
TIER="${1:-quick}"
for c in $(python3 -c "import json;print(' '.join(x['property_id'] for x in json.load(open('MANIFEST.json'))['checks']))"); do
  out=$(./check $c --tier $TIER 2>&1); rc=$?
  echo "rc=$rc $(echo "$out" | grep -c '^VIOLATION') viol; $(echo "$out" | grep -c '^KNOWN-FINDING') known; $(echo "$out" | tail -1)"
done
