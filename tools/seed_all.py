#!/usr/bin/env python3
"""Re-evaluate every kept seed in /verif/seeded against the current /repo and the current checks; writes seeded/RESULTS.md.
(meta.json of each seed is refreshed by seed_eval.py)"""
import glob
import json
import os
import subprocess
import sys

VERIF = os.path.dirname(os.path.dirname(os.path.abspath(__file__)))
from concurrent.futures import ThreadPoolExecutor

dirs = [d for d in sorted(glob.glob(os.path.join(VERIF, 'seeded', '*')))
        if os.path.isdir(d) and os.path.exists(os.path.join(d, 'patch.diff'))]


DONE = set()
if os.environ.get('SEED_SKIP_LOG') and os.path.exists(os.environ['SEED_SKIP_LOG']):
    # resume: seeds that already have a verdict line in an earlier log of this run are not evaluated again
    import re
    DONE = set(re.findall(r'^seed (\S+?):', open(os.environ['SEED_SKIP_LOG']).read(), flags=re.M))


def one(d):
    sid = os.path.basename(d)
    meta = json.load(open(os.path.join(d, 'meta.json')))
    if meta.get('obsolete'):
        return (sid, False, False, 'obsolete', meta['obsolete'][:90])
    if sid in DONE:
        return (sid, meta.get('patch_applies'), meta.get('valid_seed'), ','.join(meta.get('detected_by', [])) or '-',
                (list(meta.get('checks', {}).values())[0]['first_clauses'] or [''])[0][:90] if meta.get('checks') else '')
    checks = list(meta.get('checks', {})) or [sid.split('-')[0]]
    p = subprocess.run([sys.executable, os.path.join(VERIF, 'tools', 'seed_eval.py'), d, sid] + checks, capture_output=True, text=True)
    print(p.stdout.strip(), flush=True)
    meta = json.load(open(os.path.join(d, 'meta.json')))
    applies = 'PATCH DOES NOT APPLY' not in p.stdout
    return (sid, applies, meta.get('valid_seed') and applies, (','.join(meta.get('detected_by', [])) or '-') if applies else 'not re-evaluated',
            (list(meta.get('checks', {}).values())[0]['first_clauses'] or [''])[0][:90] if meta.get('checks') else '')


with ThreadPoolExecutor(int(os.environ.get('SEED_JOBS', '3'))) as ex:
    rows = list(ex.map(one, dirs))
with open(os.path.join(VERIF, 'seeded', 'RESULTS.md'), 'w') as f:
    head = subprocess.check_output(['git', '-C', '/repo', 'rev-parse', '--short', 'HEAD'], text=True).strip()
    f.write('# Seeded defects re-evaluated against /repo %s\n\n' % head)
    f.write('| seed | applies | valid (suite green, demo fails only with patch) | detected by (quick) | first clause |\n|---|---|---|---|---|\n')
    for r in rows:
        f.write('| %s | %s | %s | %s | `%s` |\n' % r)
    f.write('\n%d seeds, %d valid, %d detected\n' % (len(rows), sum(1 for r in rows if r[2]), sum(1 for r in rows if r[2] and r[3] != '-')))
