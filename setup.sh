#!/bin/sh
# setup_cmd: offline. Vendors jsonschema (for C16 and evidence self-validation) from the local wheelhouse.
set -e
HERE="$(cd "$(dirname "$0")" && pwd)"
cd "$HERE"
if [ ! -d .vendor/jsonschema ]; then
  /venv/bin/python -m pip install -q --no-index --find-links /opt/veriftools/wheels --target .vendor jsonschema >/dev/null 2>&1 || \
    echo "setup: jsonschema could not be vendored (C16 will report a harness error)" >&2
fi
mkdir -p evidence replays
echo setup-ok
